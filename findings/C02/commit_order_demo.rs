// Native demonstration (real tokio, real rocksdb store, real ed25519) of the C02 defects in Core::commit.
// Injected by /verif/findings/run_demo.sh as `#[cfg(test)] #[path] mod` of consensus/src/core.rs in a scratch copy.
use super::*;
use crate::common::{committee, keys};
use std::fs;
use tokio::sync::mpsc::channel;

async fn mk(path: &str) -> (Core, Receiver<Block>) {
    let (name, secret) = keys().pop().unwrap();
    let committee = committee();
    let (_tx_core, rx_core) = channel(10);
    let (tx_loopback, rx_loopback) = channel(10);
    let (tx_proposer, mut rx_proposer) = channel(10);
    let (tx_mempool, mut rx_mempool) = channel(10);
    let (tx_commit, rx_commit) = channel(10);
    let _ = fs::remove_dir_all(path);
    let store = Store::new(path).unwrap();
    tokio::spawn(async move { loop { if rx_mempool.recv().await.is_none() { break; } } });
    tokio::spawn(async move { loop { if rx_proposer.recv().await.is_none() { break; } } });
    let core = Core {
        name,
        committee: committee.clone(),
        signature_service: SignatureService::new(secret),
        store: store.clone(),
        leader_elector: LeaderElector::new(committee.clone()),
        mempool_driver: MempoolDriver::new(store.clone(), tx_mempool, tx_loopback.clone()),
        synchronizer: Synchronizer::new(name, committee.clone(), store, tx_loopback, 100_000),
        rx_message: rx_core,
        rx_loopback,
        tx_proposer,
        tx_commit,
        round: 1,
        last_voted_round: 0,
        last_committed_round: 0,
        high_qc: QC::genesis(),
        timer: Timer::new(100_000),
        aggregator: Aggregator::new(committee),
        network: SimpleSender::new(),
    };
    (core, rx_commit)
}
fn child(parent: Option<&Block>, round: Round) -> Block {
    let (pk, sk) = keys().pop().unwrap();
    let qc = match parent {
        None => QC::genesis(),
        Some(p) => QC { hash: p.digest(), round: p.round, votes: Vec::new() },
    };
    Block::new_from_key(qc, pk, round, Vec::new(), &sk)
}
async fn drain(rx: &mut Receiver<Block>) -> Vec<Round> {
    let mut v = Vec::new();
    while let Ok(b) = rx.try_recv() {
        v.push(b.round);
    }
    v
}

#[tokio::test]
async fn c02_two_uncommitted_ancestors_are_delivered_oldest_first() {
    let (mut core, mut rx) = mk(".db_c02_demo_a").await;
    let b1 = child(None, 1);
    let b2 = child(Some(&b1), 2);
    let b3 = child(Some(&b2), 3);
    for b in [&b1, &b2, &b3] {
        core.store_block(b).await;
    }
    core.commit(b3).await.unwrap();
    assert_eq!(drain(&mut rx).await, vec![1, 2, 3]);
}

#[tokio::test]
async fn c02_genesis_placeholder_is_never_delivered() {
    let (mut core, mut rx) = mk(".db_c02_demo_b").await;
    let b2 = child(None, 2); // first block above genesis sits in round 2 (round 1 timed out)
    core.store_block(&b2).await;
    core.commit(b2).await.unwrap();
    assert_eq!(drain(&mut rx).await, vec![2]);
}

#[tokio::test]
async fn c02_round_gap_after_last_delivered_block_does_not_redeliver_it() {
    let (mut core, mut rx) = mk(".db_c02_demo_c").await;
    let b1 = child(None, 1);
    let b3 = child(Some(&b1), 3); // round 2 skipped by a view change
    for b in [&b1, &b3] {
        core.store_block(b).await;
    }
    core.commit(b1).await.unwrap();
    assert_eq!(drain(&mut rx).await, vec![1]);
    core.commit(b3).await.unwrap();
    assert_eq!(drain(&mut rx).await, vec![3]);
}

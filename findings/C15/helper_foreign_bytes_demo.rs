// Native demonstration (real tokio, rocksdb, TCP) of the C15 defect in consensus::Helper::run: a sync request for a digest
// under which the shared store holds something that is not a block (e.g. a mempool batch) panics the helper task, after
// which the node no longer answers any sync request.
use super::*;
use crate::common::{block, committee_with_base_port, keys, listener};
use crypto::Hash as _;
use std::fs;
use tokio::sync::mpsc::channel;
use tokio::time::{timeout, Duration};

#[tokio::test]
async fn c15_sync_request_for_a_batch_digest_does_not_kill_the_helper() {
    let mut committee = committee_with_base_port(13_700);
    committee.authorities.retain(|_, _| true);
    let (requestor, _) = keys().pop().unwrap();
    let path = ".db_c15_helper_demo";
    let _ = fs::remove_dir_all(path);
    let mut store = Store::new(path).unwrap();
    let (tx_request, rx_request) = channel(10);
    Helper::spawn(committee.clone(), store.clone(), rx_request);

    // what the mempool stores in the SAME store: a serialized batch under its digest
    let batch_digest = Digest([7u8; 32]);
    store.write(batch_digest.to_vec(), vec![1, 2, 3, 4, 5]).await;
    // and a real block
    let b = block();
    store.write(b.digest().to_vec(), bincode::serialize(&b).unwrap()).await;

    // a peer asks for the batch digest as if it were a block
    tx_request.send((batch_digest, requestor)).await.unwrap();
    tokio::time::sleep(Duration::from_millis(100)).await;

    // the helper must still serve the next (legitimate) request
    let address = committee.address(&requestor).unwrap();
    let expected = bincode::serialize(&ConsensusMessage::Propose(b.clone())).unwrap();
    let handle = listener(address, Some(Bytes::from(expected)));
    tx_request.send((b.digest(), requestor)).await.expect("helper task is gone");
    assert!(timeout(Duration::from_secs(3), handle).await.is_ok(), "no reply: the helper task died on the foreign bytes");
}

// Native demonstration of the C15 defect in crypto: key decoding is not total.
// `bytes[..32]` / `bytes[..64]` panics on every valid base64 string that decodes to fewer bytes - reachable from the
// network because PublicKey is deserialized (via this function) from every consensus / mempool wire message.
use super::*;

#[test]
fn c15_short_public_key_text_is_an_error_not_a_panic() {
    assert!(PublicKey::decode_base64("AAAA").is_err());
    assert!(PublicKey::decode_base64("").is_err());
}
#[test]
fn c15_short_secret_key_text_is_an_error_not_a_panic() {
    assert!(SecretKey::decode_base64("AAAAAAAA").is_err());
}

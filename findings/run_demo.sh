#!/bin/bash
# usage: run_demo.sh <crate> <real file relative to crate/src> <demo file> [extra cargo test args]
# Copies /repo's working tree to a scratch dir, attaches the demo as a #[cfg(test)] module of the real file and runs it
# natively against the real dependencies (tokio, rocksdb, ed25519). Exit code = cargo test's.
set -e
CRATE=$1; FILE=$2; DEMO=$(readlink -f "$3"); shift 3
S=/var/tmp/hsverif/demo-$$
mkdir -p $S && rsync -a --exclude target --exclude .git /repo/ $S/
echo "
#[cfg(test)]
#[path = \"$DEMO\"]
mod verif_demo;" >> $S/$CRATE/src/$FILE
cd $S && CARGO_NET_OFFLINE=true CARGO_TARGET_DIR=/var/tmp/hsverif/demo-target cargo test --offline -p $CRATE verif_demo "$@" 2>&1 | tail -40
rc=${PIPESTATUS[0]}
cd / && rm -rf $S
exit $rc

// Native demonstration (real tokio, real network crate) of the C11/C15 defect in BatchMaker::seal, benchmark build:
// an empty client transaction panics the batch maker task (`tx[0]` evaluated before the length test).
// Run with: findings/run_demo.sh mempool batch_maker.rs findings/C11/empty_tx_demo.rs --features benchmark
use super::*;
use tokio::sync::mpsc::channel;
use tokio::time::{timeout, Duration as D};

#[tokio::test]
async fn c11_empty_transaction_is_batched_not_fatal() {
    let (tx_transaction, rx_transaction) = channel(10);
    let (tx_message, mut rx_message) = channel(10);
    let dummy_addresses = vec![(PublicKey::default(), "127.0.0.1:0".parse().unwrap())];
    BatchMaker::spawn(/* batch_size */ 200, /* max_batch_delay */ 50, rx_transaction, tx_message, dummy_addresses);
    tx_transaction.send(Vec::new()).await.unwrap();
    let msg = timeout(D::from_secs(3), rx_message.recv()).await.expect("no batch within 3 s: the batch maker task died").expect("channel closed: the batch maker task died");
    match bincode::deserialize(&msg.batch).unwrap() {
        MempoolMessage::Batch(b) => assert_eq!(b, vec![Vec::<u8>::new()]),
        _ => panic!("unexpected message"),
    }
    // and the service is still there for the next transaction
    tx_transaction.send(vec![0u8; 9]).await.expect("batch maker gone");
    let msg = timeout(D::from_secs(3), rx_message.recv()).await.expect("batch maker stopped batching").unwrap();
    assert!(!msg.batch.is_empty());
}

#!/usr/bin/env python3
"""setup_cmd: nothing to build (the framework is scripts + Rust sources compiled per run); verify the tools the checks need."""
import shutil
import subprocess
import sys
ok = True
for t in ["cargo", "cargo-kani", "cbmc", "rsync", "z3", "cvc5", "timeout"]:
    p = shutil.which(t)
    print("%-10s %s" % (t, p or "MISSING"))
    ok &= bool(p)
r = subprocess.run(["cargo", "kani", "--version"], stdout=subprocess.PIPE, stderr=subprocess.STDOUT, universal_newlines=True)
print(r.stdout.strip())
sys.exit(0 if ok and r.returncode == 0 else 1)

"""Driver for the solver-based checks: overlay build, parallel Kani/CBMC runs with hard caps,
result parsing, vacuity witnesses, counterexample playback, known-finding matching, evidence."""
import concurrent.futures as cf
import fcntl
import json
import os
import re
import shutil
import subprocess
import sys
import threading
import time

ROOT = os.path.dirname(os.path.dirname(os.path.abspath(__file__)))
SCRATCH = os.environ.get("VERIF_SCRATCH", "/var/tmp/hsverif")
REPO = os.environ.get("VERIF_REPO", "/repo")
KEEP = os.environ.get("VERIF_KEEP", "") == "1"
NCPU = os.cpu_count() or 4

PKG_OF_PROFILE = {"S": "store", "N": "network"}
FIRST_PARTY = re.compile(r"\b(consensus|mempool|crypto|store|network)/src/(?!tests)")


def log(*a):
    print(*a, flush=True)


def sh(cmd, **kw):
    return subprocess.run(cmd, shell=isinstance(cmd, str), stdout=subprocess.PIPE, stderr=subprocess.STDOUT,
                          universal_newlines=True, **kw)


# ----------------------------------------------------------------------------- overlay / slots
def build_overlay(profile, rundir):
    out = os.path.join(rundir, "ov-" + profile)
    r = sh([sys.executable, os.path.join(ROOT, "kani", "overlay.py"), "--profile", profile, "--out", out, "--repo", REPO])
    if r.returncode != 0:
        raise RuntimeError("overlay failed: " + r.stdout[-2000:])
    return out, json.load(open(os.path.join(out, "overlay_report.json")))


class Slot:
    """A (workspace copy, cargo target dir) pair owned by one worker at a time (flock)."""

    def __init__(self, key):
        self.key = key
        self.fd = None
        self.dir = None

    def __enter__(self):
        os.makedirs(SCRATCH, exist_ok=True)
        while True:
            for k in range(64):
                d = os.path.join(SCRATCH, "slot-%s-%d" % (self.key, k))
                os.makedirs(d, exist_ok=True)
                fd = os.open(os.path.join(d, ".lock"), os.O_CREAT | os.O_RDWR)
                try:
                    fcntl.flock(fd, fcntl.LOCK_EX | fcntl.LOCK_NB)
                    self.fd, self.dir = fd, d
                    return self
                except OSError:
                    os.close(fd)
            time.sleep(1)

    def __exit__(self, *a):
        fcntl.flock(self.fd, fcntl.LOCK_UN)
        os.close(self.fd)


def slot_cleanup():
    """Remove every slot directory nobody holds (scratch copies of the repository + build output)."""
    if KEEP or not os.path.isdir(SCRATCH):
        return
    for n in os.listdir(SCRATCH):
        if not n.startswith("slot-"):
            continue
        d = os.path.join(SCRATCH, n)
        try:
            fd = os.open(os.path.join(d, ".lock"), os.O_CREAT | os.O_RDWR)
        except OSError:
            continue
        try:
            fcntl.flock(fd, fcntl.LOCK_EX | fcntl.LOCK_NB)
            shutil.rmtree(d, ignore_errors=True)
        except OSError:
            pass
        finally:
            os.close(fd)


# ----------------------------------------------------------------------------- kani codegen + direct CBMC
# Kani is used as the compiler (real source -> goto program per harness, `--only-codegen`); the goto programs are then
# linked, instrumented and solved with the same goto-cc / goto-instrument / cbmc command lines kani-driver uses (printed by
# `cargo kani --verbose`), but with CBMC's plain-text result listing instead of `--json-ui` (kani-driver's JSON mode emits a
# full trace per satisfied cover / reachability check: >1 GB and 3x the wall-clock on the Core harnesses).
KANI_HOME = os.path.expanduser("~/.kani/kani-0.68.0")
CBMC_FLAGS = ["--no-malloc-may-fail", "--no-undefined-shift-check", "--no-signed-overflow-check", "--no-bounds-check",
              "--no-pointer-check", "--nan-check", "--no-self-loops-to-assumptions", "--no-pointer-primitive-check",
              "--object-bits", "16", "--sat-solver", "cadical", "--slice-formula", "--verbosity", "8", "--max-field-sensitivity-array-size", "256"]
PROP_RE = re.compile(r"^\[(.+)\.([A-Za-z_-]+)\.(\d+)\] line (\d+) (.*): (SUCCESS|FAILURE|UNKNOWN|ERROR)$")
HDR_RE = re.compile(r"^(\S.*) function (.+)$")


def pkg_of(h):
    return h.get("pkg") or PKG_OF_PROFILE.get(h["profile"], "consensus")


def group_key(h):
    return (h["profile"], h.get("features", ""), pkg_of(h), bool(h.get("stubbing")))


def kani_cmd(h, extra=(), names=None):
    cmd = ["cargo", "kani", "-p", pkg_of(h), "-Z", "unstable-options", "--no-memory-safety-checks"]
    for n in (names or [h["name"]]):
        cmd += ["--harness", n]
    cmd += ["--exact"]
    if h.get("features"):
        cmd += ["--features", h["features"]]
    if h.get("stubbing"):
        cmd += ["-Z", "stubbing"]
    cmd += list(extra)
    return cmd


def codegen(hs, ovdir, rundir):
    """Compile one group of harnesses with Kani (--only-codegen). Returns {fq_name: (symtab_path_copy, unwind)} or raises."""
    h0 = hs[0]
    key = "%s%s" % (h0["profile"], ("-" + h0["features"]) if h0.get("features") else "")
    out = {}
    with Slot(key) as slot:
        ws = os.path.join(slot.dir, "ws")
        sh(["rsync", "-a", "--delete", ovdir + "/", ws + "/"])
        env = dict(os.environ)
        env.update(CARGO_NET_OFFLINE="true", CARGO_TARGET_DIR=os.path.join(slot.dir, "target"))
        env.pop("RUSTFLAGS", None)
        cmd = kani_cmd(h0, ["--only-codegen"], names=[h["name"] for h in hs])
        logp = os.path.join(rundir, "logs", "codegen-%s-%s.log" % (key, pkg_of(h0)))
        os.makedirs(os.path.dirname(logp), exist_ok=True)
        with open(logp, "w") as lf:
            p = subprocess.run(["timeout", "-k", "10", "1800"] + cmd, cwd=ws, env=env, stdout=lf, stderr=subprocess.STDOUT)
        if p.returncode != 0:
            raise RuntimeError("codegen failed (see %s):\n%s" % (logp, "\n".join(
                l for l in open(logp, errors="replace").read().split("\n") if l.startswith("error"))[:3000]))
        metas = []
        for root, _, files in os.walk(os.path.join(slot.dir, "target", "kani")):
            for f in files:
                if f.endswith(".kani-metadata.json"):
                    metas.append(os.path.join(root, f))
        metas.sort(key=os.path.getmtime)
        for m in metas:
            for ph in json.load(open(m)).get("proof_harnesses", []):
                g = ph.get("goto_file")
                if g and os.path.exists(g):
                    out[ph["pretty_name"]] = (g, ph["attributes"].get("unwind_value"), ph["mangled_name"])
        res = {}
        gd = os.path.join(rundir, "goto")
        os.makedirs(gd, exist_ok=True)
        for h in hs:
            if h["name"] not in out:
                raise RuntimeError("harness %s not produced by codegen (see %s)" % (h["name"], logp))
            g, unwind, mangled = out[h["name"]]
            dst = os.path.join(gd, h["short"] + ".symtab.out")
            shutil.copy(g, dst)
            res[(h["name"], h.get("features", ""))] = (dst, (unwind, mangled))
        return res


def parse_cbmc(text):
    res = {"checks": 0, "failed": [], "covers": [], "undetermined": 0, "functions": set(), "reach_fail": 0}
    cur_file = cur_fn = ""
    for line in text.split("\n"):
        m = PROP_RE.match(line)
        if not m:
            hm = HDR_RE.match(line)
            if hm and not line.startswith("["):
                cur_file, cur_fn = hm.group(1), hm.group(2)
            continue
        name, cls, _, ln, desc, status = m.groups()
        desc = re.sub(r"^\[?KANI_CHECK_ID_[^\]\s]*\]? ?", "", desc)
        loc = "%s:%s in function %s" % (cur_file, ln, cur_fn)
        if cls == "reachability_check":
            if status == "FAILURE":
                res["reach_fail"] += 1
            continue
        if cls == "cover":
            st = {"FAILURE": "SATISFIED", "SUCCESS": "UNSATISFIABLE"}.get(status, status)
            res["covers"].append({"name": name, "status": st, "desc": desc.replace("cover condition: ", ""), "loc": loc})
            continue
        res["checks"] += 1
        if status == "FAILURE":
            res["failed"].append({"name": "%s.%s" % (name, cls), "desc": desc, "loc": loc, "prop_id": "%s.%s.%s" % (name, cls, m.group(3))})
        elif status != "SUCCESS":
            res["undetermined"] += 1
        if FIRST_PARTY.search(cur_file) and "kani_" not in cur_fn and "_harness" not in cur_file:
            res["functions"].add(cur_fn)
    res["done"] = bool(re.search(r"^VERIFICATION (SUCCESSFUL|FAILED)$", text, re.M))
    m = re.search(r"Runtime Symex: ([\d.]+)s", text)
    res["symex_s"] = float(m.group(1)) if m else None
    res["solver_s"] = round(sum(float(x) for x in re.findall(r"Runtime decision procedure: ([\d.]+)s", text)), 2)
    m = re.search(r"(\d+) variables, (\d+) clauses", text)
    res["sat_vars"], res["sat_clauses"] = (int(m.group(1)), int(m.group(2))) if m else (None, None)
    m = re.search(r"Generated (\d+) VCC\(s\), (\d+) remaining", text)
    res["vccs"] = int(m.group(2)) if m else None
    res["functions"] = sorted(res["functions"])
    return res


def solve(h, symtab, unwind_mangled, rundir):
    """goto-cc + goto-instrument + cbmc on one harness. Returns (status, parsed, logpath, wall)."""
    t0 = time.time()
    unwind, mangled = unwind_mangled
    out = os.path.join(rundir, "goto", h["short"] + ".out")
    logp = os.path.join(rundir, "logs", h["short"] + ".log")
    timeout = int(h.get("timeout", 600) * float(os.environ.get("VERIF_TIME_SCALE", "1")))
    mem_kb = int(h.get("mem_gb", 12) * 1024 * 1024)
    steps = [
        ["goto-cc", symtab, os.path.join(KANI_HOME, "library/kani/kani_lib.c"), "-o", out],
        ["goto-cc", out, "--function", mangled, "-o", out],
        ["goto-instrument", "--add-library", "--no-malloc-may-fail", out, out],
        ["goto-instrument", "--generate-function-body-options", "assert-false-assume-false", "--generate-function-body", ".*",
         "--drop-unused-functions", out, out],
        ["goto-instrument", "--ensure-one-backedge-per-target", out, out],
    ]
    cb = ["cbmc"] + CBMC_FLAGS + (["--unwind", str(h.get("unwind") or unwind)] if (h.get("unwind") or unwind) else []) + \
        list(h.get("cbmc_args", [])) + [out]
    with open(logp, "w") as lf:
        rc = 0
        for st in steps:
            lf.write("$ " + " ".join(st) + "\n")
            lf.flush()
            rc = subprocess.run(st, stdout=lf, stderr=subprocess.STDOUT).returncode
            if rc != 0:
                break
        if rc == 0:
            line = "ulimit -v %d; exec timeout -k 10 %d %s" % (mem_kb, timeout, " ".join("'%s'" % c for c in cb))
            lf.write("$ " + line + "\n")
            lf.flush()
            rc = subprocess.run(["bash", "-c", line], stdout=lf, stderr=subprocess.STDOUT).returncode
    text = open(logp, errors="replace").read()
    parsed = parse_cbmc(text)
    wall = time.time() - t0
    real_fail = [f for f in parsed["failed"]]
    if rc in (124, 137):
        st = "TIMEOUT"
    elif not parsed["done"]:
        st = "ERROR"  # out of memory, solver abort, instrumentation failure
    elif parsed["undetermined"]:
        st = "ERROR"
    elif real_fail:
        st = "UNWIND" if any("unwinding assertion" in f["desc"] for f in real_fail) else "FAIL"
    else:
        unsat = [c for c in parsed["covers"] if c["status"] != "SATISFIED"]
        if h.get("info_covers"):
            unsat = []  # rule-extraction harness: cover verdicts are data, not vacuity witnesses
        st = "VACUOUS" if unsat or (h.get("need_cover", True) and not parsed["covers"]) else "PASS"
    if st != "FAIL":
        try:
            os.remove(out)
        except OSError:
            pass
    parsed["goto_out"] = out
    parsed["cbmc_cmd"] = cb
    return st, parsed, logp, wall


# the value is taken from the binary rendering at the end of the line (CBMC prints some small constants as `sizeof(..) /*1ul*/`)
WIT_RE = re.compile(r"return_value\$\$_R\w*4vwit4draw=.*\(([01 ]+)\)\s*$")


def extract_witness(h, parsed, failed, rundir):
    """Ask CBMC for a trace of the first failed property and read the witness table vwit::W from it."""
    out = parsed.get("goto_out")
    if not out or not os.path.exists(out):
        return None, "goto binary not kept"
    prop = failed[0].get("prop_id")
    cmd = [c for c in parsed["cbmc_cmd"] if c not in ("--verbosity", "8")] + ["--trace", "--verbosity", "4"]
    if prop:
        cmd += ["--property", prop]
    tp = os.path.join(rundir, "logs", h["short"] + ".trace")
    timeout = int(h.get("timeout", 600) * 2)
    with open(tp, "w") as tf:
        subprocess.run(["bash", "-c", "ulimit -v %d; exec timeout -k 10 %d %s" % (
            int(max(h.get("mem_gb", 12), 24) * 1048576), timeout, " ".join("'%s'" % c for c in cmd))], stdout=tf, stderr=subprocess.STDOUT)
    # every symbolic draw is one call of vwit::draw; the trace lists its return values in program order
    vals = []
    n_lines = 0
    with open(tp, errors="replace") as tf:
        for line in tf:
            n_lines += 1
            m = WIT_RE.search(line)
            if m:
                vals.append(int(m.group(1).replace(" ", ""), 2))
    if not vals and n_lines < 5:
        return None, "no trace produced"
    return vals, tp


def playback(h, ovdir_unused, rundir, parsed=None, failed=None):
    """Native replay: extract the solver's witness (values of every symbolic draw, in order) from a CBMC trace, rebuild the
    overlay in replay mode (harnesses as #[test], kani attributes stripped, rustc instead of kani-compiler) and run the
    harness natively with VERIF_WITNESS. Reproduced = the native test fails."""
    out = {"reproduced": False, "witness": None, "test": h["name"], "native_tail": ""}
    vals, info = extract_witness(h, parsed or {}, failed or [{}], rundir)
    if vals is None:
        out["native_tail"] = "witness extraction failed: %s" % info
        return out
    out["witness"] = vals
    base = h["profile"]
    ov = os.path.join(rundir, "ovr-" + base)
    if not os.path.exists(ov):
        r = sh([sys.executable, os.path.join(ROOT, "kani", "overlay.py"), "--profile", base, "--out", ov, "--repo", REPO, "--replay"])
        if r.returncode != 0:
            out["native_tail"] = "replay overlay failed: " + r.stdout[-1500:]
            return out
    with Slot(base + "-replay") as slot:
        ws = os.path.join(slot.dir, "ws")
        sh(["rsync", "-a", "--delete", ov + "/", ws + "/"])
        env = dict(os.environ)
        env.update(CARGO_NET_OFFLINE="true", CARGO_TARGET_DIR=os.path.join(slot.dir, "target"),
                   VERIF_WITNESS=",".join(str(v) for v in vals), RUST_BACKTRACE="0")
        env["RUSTFLAGS"] = "--cfg verif_replay"
        cmd = ["cargo", "test", "--offline", "-p", pkg_of(h), "--lib"]
        if h.get("features"):
            cmd += ["--features", h["features"]]
        cmd += ["--", h["name"], "--exact", "--test-threads=1"]
        r2 = sh(["timeout", "-k", "10", "1200"] + cmd, cwd=ws, env=env)
        out["native_tail"] = r2.stdout[-3000:]
        out["command"] = "VERIF_WITNESS=%s %s" % (env["VERIF_WITNESS"], " ".join(cmd))
        ran = re.search(r"running 1 test", r2.stdout) is not None
        out["reproduced"] = ran and bool(re.search(r"test result: FAILED\. 0 passed; 1 failed", r2.stdout)) and \
            "violates a harness assumption" not in r2.stdout
        m = re.search(r"panicked at [^\n]*\n([^\n]*)", r2.stdout)
        out["native_panic"] = m.group(0)[:400] if m else None
    return out


# ----------------------------------------------------------------------------- known findings
def load_known():
    p = os.path.join(ROOT, "known_findings.json")
    if not os.path.exists(p):
        return []
    return json.load(open(p)).get("findings", [])


def match_known(pid, hname, failed, known):
    """Split failed checks into (matched known entries, unmatched checks). A `fixed` entry suppresses nothing."""
    hits, rest = [], []
    for f in failed:
        hit = None
        for k in known:
            if k.get("status") != "known" or k["property"] != pid:
                continue
            if re.search(k["harness"], hname) and re.search(k["check"], f["desc"] + " @ " + f["loc"]):
                hit = k
                break
        (hits if hit else rest).append((f, hit))
    return hits, rest


# ----------------------------------------------------------------------------- main entry
def run_property(pid, spec, tier, seed, only=None, jobs=0):
    t0 = time.time()
    rundir = os.path.join(SCRATCH, "run-%s-%d" % (pid, os.getpid()))
    shutil.rmtree(rundir, ignore_errors=True)
    os.makedirs(rundir)
    hs = [dict(h) for h in spec.get("harnesses", []) if tier == "thorough" or h.get("tier", "quick") == "quick"]
    if only:
        names = set(only.split(","))
        hs = [h for h in hs if h.get("short", h["name"]) in names]
    known = load_known()
    results, overlays, reports = [], {}, {}
    inconclusive, violations, known_hits = [], [], []
    try:
        for prof in sorted(set(h["profile"] for h in hs)):
            try:
                overlays[prof], reports[prof] = build_overlay(prof, rundir)
            except Exception as e:  # noqa
                log("INCONCLUSIVE overlay %s: %s" % (prof, e))
                inconclusive.append("overlay-" + prof)
        jobs = jobs or max(1, min(len(hs), int(os.environ.get("VERIF_PAR", str(max(2, NCPU // 2))))))
        lock = threading.Lock()

        # compile once per (profile, features, package), then solve every harness in parallel
        compiled, build_failed = {}, set()
        groups = {}
        for h in hs:
            groups.setdefault(group_key(h), []).append(h)

        def build(item):
            gk, ghs = item
            if gk[0] not in overlays:
                return gk, None, "no overlay"
            try:
                return gk, codegen(ghs, overlays[gk[0]], rundir), None
            except Exception as e:  # noqa
                return gk, None, str(e)

        tb = time.time()
        with cf.ThreadPoolExecutor(max_workers=max(1, len(groups))) as ex:
            for gk, res, err in ex.map(build, groups.items()):
                if err:
                    log("INCONCLUSIVE codegen %s: %s" % ("/".join(str(x) for x in gk), err))
                    build_failed.add(gk)
                else:
                    compiled.update(res)
        if groups:
            log("  [%s] codegen of %d harness(es) in %d group(s): %.0fs" % (pid, len(hs), len(groups), time.time() - tb))

        def work(h):
            ck = (h["name"], h.get("features", ""))
            if ck not in compiled:
                return h, "BUILD", {"failed": [], "covers": [], "checks": 0, "functions": []}, "", 0.0
            symtab, unwind = compiled[ck]
            st, parsed, logp, wall = solve(h, symtab, unwind, rundir)
            with lock:
                log("  [%s] %-34s %-8s %6.1fs  checks=%d failed=%d covers=%s vars=%s" % (
                    pid, h.get("short", h["name"]), st, wall, parsed["checks"], len(parsed["failed"]),
                    "%d/%d" % (len([c for c in parsed["covers"] if c["status"] == "SATISFIED"]), len(parsed["covers"])),
                    parsed.get("sat_vars")))
            return h, st, parsed, logp, wall

        if hs:
            # longest first
            order = sorted(hs, key=lambda h: -h.get("cost", 1))
            with cf.ThreadPoolExecutor(max_workers=jobs) as ex:
                results = list(ex.map(work, order))

        # ---- other solver engines (z3 / cvc5 encodings)
        engine_results = []
        engine_fail = []
        for eng in spec.get("engines", []):
            if only:
                continue
            er = eng(tier=tier, seed=seed, rundir=rundir, repo=REPO, overlays=overlays, results=results)
            engine_results.append(er)
            log("  [%s] engine %-27s %-8s %6.1fs  queries=%d" % (pid, er["name"], er["status"], er["wall_s"], er["queries"]))
            if er["status"] == "FAIL":
                engine_fail.append(er)
            elif er["status"] != "PASS":
                inconclusive.append(er["name"])

        # ---- classify Kani results
        samples = []
        pending_replay = []
        obligations = discharged = queries = 0
        solver_s = 0.0
        functions = set()
        nontrivial = 0
        parsed_of = {}
        for h, st, parsed, logp, wall in results:
            parsed_of[h["short"]] = parsed
            queries += 1
            obligations += parsed["checks"] + len(parsed["covers"])
            solver_s += parsed.get("solver_s") or 0.0
            functions.update(parsed["functions"])
            sample = {"harness": h.get("short", h["name"]), "fq_name": h["name"], "profile": h["profile"], "status": st, "wall_s": round(wall, 1),
                      "solver_s": parsed.get("solver_s"), "symex_s": parsed.get("symex_s"), "sat_vars": parsed.get("sat_vars"),
                      "sat_clauses": parsed.get("sat_clauses"), "vccs_after_simplification": parsed.get("vccs"), "symbolic": h.get("symbolic", ""), "bounds": h.get("bounds", ""),
                      "asserts": h.get("asserts", ""), "checks": parsed["checks"],
                      "covers": ["%s: %s" % (c["desc"], c["status"]) for c in parsed["covers"]]}
            if st == "PASS":
                discharged += parsed["checks"] + len(parsed["covers"])
                if parsed["checks"] > 0:
                    nontrivial += 1
            elif st == "FAIL":
                # assertion messages carry the id of the property they state ("Cxx ..."); a failure that states another
                # property is that property's business (its own check runs the same harness) and is only noted here
                # a deviation from the harness's store-lookup script (or any other harness-model mismatch flagged by a shim) says
                # that the harness no longer fits the code, not that the property is violated: inconclusive, never an alarm
                script = [f for f in parsed["failed"] if "verif-script:" in f["desc"] or "store shim:" in f["desc"] or "kcoll: capacity" in f["desc"]
                          or "tokio shim:" in f["desc"] or "futures shim:" in f["desc"] or "rocksdb shim:" in f["desc"]
                          # a lowered function awaited something that is not ready in the sequential model (e.g. a refactoring
                          # that moves a genuine wait into a helper): the lowering no longer fits the code
                          or "verif: awaited future not ready" in f["desc"] or "verif: future unexpectedly pending" in f["desc"]]
                if script:
                    sample["status"] = "HARNESS-MISMATCH"
                    sample["failed"] = [f["desc"] + " @ " + f["loc"] for f in script]
                    inconclusive.append("%s:harness-model mismatch (%s)" % (h.get("short", h["name"]), script[0]["desc"][:80]))
                    samples.append(sample)
                    continue
                mine, foreign = [], []
                for f in parsed["failed"]:
                    # a message may state several properties at once: "C04/C19 ..."
                    tm = re.match(r'^"?((?:C\d\d[/, ]*)+)', f["desc"])
                    tags = re.findall(r"C\d\d", tm.group(1)) if tm else []
                    (foreign if tags and pid not in tags else mine).append(f)
                if foreign:
                    sample["failed_other_property"] = [f["desc"] for f in foreign]
                if not mine:
                    discharged += parsed["checks"] - len(foreign)
                    sample["status"] = "PASS (failures belong to %s)" % ",".join(sorted(set(re.match(r'^"?(C\d\d)', f["desc"]).group(1) for f in foreign)))
                    nontrivial += 1
                    samples.append(sample)
                    continue
                parsed = dict(parsed)
                parsed["failed"] = mine
                hits, rest = match_known(pid, h["name"], parsed["failed"], known)
                discharged += parsed["checks"] - len(parsed["failed"])
                if hits and not rest:
                    for f, k in hits:
                        known_hits.append((k, f))
                    sample["status"] = "KNOWN-FINDING"
                    nontrivial += 1
                else:
                    sample["failed"] = [f["desc"] + " @ " + f["loc"] for f, _ in rest]
                    pending_replay.append((h, [f for f, _ in rest] or parsed["failed"], logp, sample, wall))
            else:
                inconclusive.append("%s:%s" % (h["name"], st))
                keep = os.path.join(SCRATCH, "logs", pid)
                os.makedirs(keep, exist_ok=True)
                if logp and os.path.exists(logp):
                    shutil.copy(logp, keep)
                    sample["log"] = os.path.join(keep, os.path.basename(logp))
            samples.append(sample)
        # ---- counterexamples: replay natively before reporting. Cheapest failing harness first; at most MAX_REPLAYS attempts;
        #      further failing harnesses are listed as unreplayed (they need no separate VIOLATION line).
        max_replays = int(os.environ.get("VERIF_MAX_REPLAYS", "2"))
        pending_replay.sort(key=lambda t: t[4])
        reproduced = False
        for n_try, (h, failed, logp, sample, _) in enumerate(pending_replay):
            if reproduced or n_try >= max_replays:
                sample["replay"] = "not replayed (an earlier counterexample of this run was already reproduced)" if reproduced else "not replayed (replay budget)"
                if reproduced:
                    violations[-1].setdefault("also_failing", []).append(h.get("short", h["name"]))
                continue
            pb = playback(h, overlays[h["profile"]], rundir, parsed=parsed_of[h["short"]], failed=failed)
            rp = save_replay(pid, h, failed, pb, logp)
            sample["replay"] = rp
            if pb["reproduced"]:
                reproduced = True
                violations.append({"harness": h["name"], "failed": sample["failed"], "replay": rp})
            else:
                log("INCONCLUSIVE %s: counterexample did not reproduce natively (see %s)" % (h["name"], rp))
        if pending_replay and not reproduced:
            inconclusive.append("%d failing harness(es), none reproduced natively" % len(pending_replay))
        # a solver engine found a counterexample history: replay natively the node-local step(s) of the real code it relies on
        for er in engine_fail:
            done = False
            for short in er.get("replay_of", []):
                cand = [(h, st, parsed, logp) for h, st, parsed, logp, _ in results if h.get("short") == short and st == "FAIL"]
                if not cand:
                    continue
                h, st, parsed, logp = cand[0]
                pb = playback(h, overlays[h["profile"]], rundir, parsed=parsed, failed=parsed["failed"])
                pb["history"] = er.get("history")
                pb["engine"] = {k: v for k, v in er.items() if k not in ("history",)}
                rp = save_replay(pid, dict(h, short=er["name"] + "+" + short), parsed["failed"], pb, logp)
                if pb["reproduced"]:
                    violations.append({"harness": er["name"], "failed": er.get("failed", []) + ["local step replayed natively: " + short], "replay": rp})
                    done = True
                    break
            if not done:
                log("INCONCLUSIVE %s: counterexample history found but no deviating local step could be replayed natively" % er["name"])
                inconclusive.append(er["name"] + ":noreplay")
        for er in engine_results:
            queries += er["queries"]
            obligations += er.get("obligations", er["queries"])
            discharged += er.get("discharged", er["queries"] if er["status"] == "PASS" else 0)
            solver_s += er.get("solver_s", 0.0)
            functions.update(er.get("functions", []))
            nontrivial += er.get("nontrivial", 1 if er["status"] == "PASS" else 0)
            samples.append({k: v for k, v in er.items() if k not in ("functions",)})

        # ---- report
        seen = set()
        for k, f in known_hits:
            if k["id"] not in seen:
                seen.add(k["id"])
                log("KNOWN-FINDING: property=%s %s [%s]" % (pid, k["what"], k["id"]))
        for v in violations:
            log("VIOLATION property=%s replay=%s" % (pid, v["replay"]))
            for d in v["failed"][:5]:
                log("    " + str(d))
            if v.get("also_failing"):
                log("    also failing (not replayed separately): " + ", ".join(v["also_failing"]))
        for i in inconclusive:
            log("INCONCLUSIVE property=%s %s" % (pid, i))
        wall = time.time() - t0
        if not only and pid != "DBG" and not os.environ.get("VERIF_NO_EVIDENCE"):
            ev = {
                "property_id": pid, "tier": tier, "seed": seed, "level": spec.get("level", "model_checking"),
                "coverage": {
                    "evaluations": queries, "distinct_nontrivial": nontrivial,
                    "rule": "one evaluation = one solver query (a Kani/CBMC harness run over the real source in the shim overlay, or one "
                            "SMT query); non-trivial = verdict obtained with >=1 reachable assertion AND every kani::cover! vacuity "
                            "witness SATISFIED; distinct = distinct harness/query names",
                    "obligations": obligations, "discharged": discharged,
                    "checker_cmd": "cargo kani 0.68 --only-codegen (real source -> goto program per harness); goto-cc + goto-instrument (kani-driver's passes); cbmc 6.11 " + " ".join(CBMC_FLAGS) + " --unwind <harness bound> (unwinding assertions on by default in CBMC 6)",
                    "trusted_base": spec.get("trusted_base", []),
                    "functions_encoded": sorted(functions),
                    "bounds": spec.get("bounds", ""), "outside_bounds": spec.get("outside", ""),
                    "solver_time_s": round(solver_s, 1),
                    "overlay": {p: {"rewritten_imports": r["rewritten_imports"], "real_files": r["real_files"]} for p, r in reports.items()},
                    "known_findings_reported": sorted(seen),
                    "inconclusive": inconclusive,
                    "samples": samples, "exhaustive": False,
                    "explanation": spec.get("explanation", ""),
                },
                "assumptions": spec.get("assumptions", []),
                "wall_s": round(wall, 1), "violations": len(violations),
            }
            os.makedirs(os.path.join(ROOT, "evidence"), exist_ok=True)
            json.dump(ev, open(os.path.join(ROOT, "evidence", pid + ".json"), "w"), indent=1)
        log("%s tier=%s: %d queries, %d/%d obligations discharged, %d violation(s), %d inconclusive, %.0fs" % (
            pid, tier, queries, discharged, obligations, len(violations), len(inconclusive), wall))
        if violations:
            return 1
        if inconclusive:
            return 2
        return 0
    finally:
        if not KEEP:
            shutil.rmtree(rundir, ignore_errors=True)
        slot_cleanup()


def save_replay(pid, h, failed, pb, logp):
    d = os.path.join(ROOT, "replays", pid)
    os.makedirs(d, exist_ok=True)
    p = os.path.join(d, (h.get("short") or h["name"]).replace("/", "_") + ".json")
    json.dump({"property": pid, "harness": h, "failed_checks": failed, "witness": pb.get("witness"), "history": pb.get("history"), "engine": pb.get("engine"),
               "reproduced_natively": pb.get("reproduced"), "native_command": pb.get("command"), "native_panic": pb.get("native_panic"),
               "native_output_tail": pb.get("native_tail"),
               "how": "cbmc --trace on the failed property -> values of every symbolic draw (vwit::W) -> overlay rebuilt in replay mode "
                      "(harness as #[test], rustc) -> harness run natively with VERIF_WITNESS against the real first-party code"},
              open(p, "w"), indent=1)
    return p


def replay_saved(pid, path):
    """Re-execute a saved counterexample natively against the current tree (same witness). exit 1 if it still fails."""
    rp = json.load(open(path))
    h = rp["harness"]
    rundir = os.path.join(SCRATCH, "replay-%s-%d" % (pid, os.getpid()))
    os.makedirs(os.path.join(rundir, "logs"), exist_ok=True)
    try:
        global extract_witness
        saved = rp.get("witness") or []
        real_extract = extract_witness
        extract_witness = lambda *a, **k: (saved, "saved witness")  # noqa: E731
        try:
            pb = playback(h, None, rundir, parsed={}, failed=rp.get("failed_checks") or [{}])
        finally:
            extract_witness = real_extract
        log(pb["native_tail"][-1500:])
        if pb["reproduced"]:
            log("VIOLATION property=%s replay=%s" % (pid, path))
            return 1
        log("replay: the saved counterexample no longer fails on the current tree")
        return 0
    finally:
        if not KEEP:
            shutil.rmtree(rundir, ignore_errors=True)
        slot_cleanup()

"""Driver for the solver-based checks: overlay build, parallel Kani/CBMC runs with hard caps,
result parsing, vacuity witnesses, counterexample playback, known-finding matching, evidence."""
import concurrent.futures as cf
import fcntl
import json
import os
import re
import shutil
import subprocess
import sys
import threading
import time

ROOT = os.path.dirname(os.path.dirname(os.path.abspath(__file__)))
SCRATCH = os.environ.get("VERIF_SCRATCH", "/var/tmp/hsverif")
REPO = os.environ.get("VERIF_REPO", "/repo")
KEEP = os.environ.get("VERIF_KEEP", "") == "1"
NCPU = os.cpu_count() or 4

PKG_OF_PROFILE = {"S": "store", "N": "network"}
FIRST_PARTY = re.compile(r"\b(consensus|mempool|crypto|store|network)/src/(?!tests)")


def log(*a):
    print(*a, flush=True)


def sh(cmd, **kw):
    return subprocess.run(cmd, shell=isinstance(cmd, str), stdout=subprocess.PIPE, stderr=subprocess.STDOUT,
                          universal_newlines=True, **kw)


# ----------------------------------------------------------------------------- overlay / slots
def build_overlay(profile, rundir):
    out = os.path.join(rundir, "ov-" + profile)
    r = sh([sys.executable, os.path.join(ROOT, "kani", "overlay.py"), "--profile", profile, "--out", out, "--repo", REPO])
    if r.returncode != 0:
        raise RuntimeError("overlay failed: " + r.stdout[-2000:])
    return out, json.load(open(os.path.join(out, "overlay_report.json")))


class Slot:
    """A (workspace copy, cargo target dir) pair owned by one worker at a time (flock)."""

    def __init__(self, key):
        self.key = key
        self.fd = None
        self.dir = None

    def __enter__(self):
        os.makedirs(SCRATCH, exist_ok=True)
        while True:
            for k in range(64):
                d = os.path.join(SCRATCH, "slot-%s-%d" % (self.key, k))
                os.makedirs(d, exist_ok=True)
                fd = os.open(os.path.join(d, ".lock"), os.O_CREAT | os.O_RDWR)
                try:
                    fcntl.flock(fd, fcntl.LOCK_EX | fcntl.LOCK_NB)
                    self.fd, self.dir = fd, d
                    return self
                except OSError:
                    os.close(fd)
            time.sleep(1)

    def __exit__(self, *a):
        fcntl.flock(self.fd, fcntl.LOCK_UN)
        os.close(self.fd)


def slot_cleanup():
    """Remove every slot directory nobody holds (scratch copies of the repository + build output)."""
    if KEEP or not os.path.isdir(SCRATCH):
        return
    for n in os.listdir(SCRATCH):
        if not n.startswith("slot-"):
            continue
        d = os.path.join(SCRATCH, n)
        try:
            fd = os.open(os.path.join(d, ".lock"), os.O_CREAT | os.O_RDWR)
        except OSError:
            continue
        try:
            fcntl.flock(fd, fcntl.LOCK_EX | fcntl.LOCK_NB)
            shutil.rmtree(d, ignore_errors=True)
        except OSError:
            pass
        finally:
            os.close(fd)


# ----------------------------------------------------------------------------- kani invocation
CHECK_RE = re.compile(r"^Check (\d+): (.+)\n\t - Status: (\w+)\n\t - Description: \"(.*)\"\n\t - Location: (.*)$", re.M)


def kani_cmd(h, extra=()):
    pkg = h.get("pkg") or PKG_OF_PROFILE.get(h["profile"], "consensus")
    cmd = ["cargo", "kani", "-p", pkg, "-Z", "unstable-options", "--no-memory-safety-checks", "--harness", h["name"], "--exact"]
    if h.get("features"):
        cmd += ["--features", h["features"]]
    if h.get("stubbing"):
        cmd += ["-Z", "stubbing"]
    cmd += list(extra)
    cb = list(h.get("cbmc_args", []))
    if cb:
        cmd += ["--cbmc-args"] + cb
    return cmd


def full_name(h):
    return h["path"] + "::" + h["name"] if h.get("path") else h["name"]


def parse_kani(text):
    res = {"checks": 0, "failed": [], "covers": [], "undetermined": 0, "functions": set()}
    for m in CHECK_RE.finditer(text):
        _, name, status, desc, loc = m.groups()
        if ".cover." in name or status in ("SATISFIED", "UNSATISFIABLE"):
            res["covers"].append({"name": name, "status": status, "desc": desc, "loc": loc})
            continue
        res["checks"] += 1
        if status == "FAILURE":
            res["failed"].append({"name": name, "desc": desc, "loc": loc})
        elif status in ("UNDETERMINED", "ERROR"):
            res["undetermined"] += 1
        fm = re.search(r"^(\S+?):\d+:\d+ in function (.+)$", loc)
        if fm and FIRST_PARTY.search(fm.group(1)) and "kani_" not in fm.group(2):
            res["functions"].add(fm.group(2))
    m = re.search(r"\*\* (\d+) of (\d+) failed", text)
    res["summary"] = (int(m.group(1)), int(m.group(2))) if m else None
    m = re.search(r"\*\* (\d+) of (\d+) cover properties satisfied", text)
    res["cover_summary"] = (int(m.group(1)), int(m.group(2))) if m else None
    m = re.search(r"Verification Time: ([\d.]+)s", text)
    res["solver_s"] = float(m.group(1)) if m else None
    res["successful"] = "VERIFICATION:- SUCCESSFUL" in text
    res["failed_verdict"] = "VERIFICATION:- FAILED" in text
    res["functions"] = sorted(res["functions"])
    return res


def run_kani(h, ovdir, rundir, extra=(), tag=""):
    """Run one harness in its own slot. Returns (status, parsed, logpath, wall)."""
    key = h["profile"] + ("-" + h["features"] if h.get("features") else "")
    t0 = time.time()
    with Slot(key) as slot:
        ws = os.path.join(slot.dir, "ws")
        sh(["rsync", "-a", "--delete", ovdir + "/", ws + "/"])
        env = dict(os.environ)
        env.update(CARGO_NET_OFFLINE="true", CARGO_TARGET_DIR=os.path.join(slot.dir, "target"))
        env.pop("RUSTFLAGS", None)
        timeout = int(h.get("timeout", 600) * float(os.environ.get("VERIF_TIME_SCALE", "1")))
        mem_kb = int(h.get("mem_gb", 12) * 1024 * 1024)
        cmd = kani_cmd(h, extra)
        line = "ulimit -v %d; exec timeout -k 10 %d %s" % (mem_kb, timeout, " ".join("'%s'" % c for c in cmd))
        logp = os.path.join(rundir, "logs", "%s%s.log" % (h["name"], tag))
        os.makedirs(os.path.dirname(logp), exist_ok=True)
        with open(logp, "w") as lf:
            lf.write("$ " + line + "\n")
            lf.flush()
            p = subprocess.run(["bash", "-c", line], cwd=ws, env=env, stdout=lf, stderr=subprocess.STDOUT)
        text = open(logp, errors="replace").read()
        parsed = parse_kani(text)
        wall = time.time() - t0
        if p.returncode in (124, 137):
            st = "TIMEOUT"
        elif parsed["successful"]:
            cs = parsed["cover_summary"]
            unsat = [c for c in parsed["covers"] if c["status"] != "SATISFIED"]
            st = "VACUOUS" if (unsat or (cs and cs[0] != cs[1])) else "PASS"
            if h.get("need_cover", True) and not parsed["covers"]:
                st = "VACUOUS"
        elif parsed["failed_verdict"]:
            if any("unwinding assertion" in f["desc"] for f in parsed["failed"]):
                st = "UNWIND"
            elif not parsed["failed"]:
                st = "ERROR"  # out of memory / solver error: "0 of N failed" but FAILED verdict
            else:
                st = "FAIL"
        elif re.search(r"^error(\[E\d+\])?:", text, re.M) or "could not compile" in text:
            st = "BUILD"
        else:
            st = "ERROR"
        parsed["ws"] = ws
        return st, parsed, logp, wall, slot.dir


PLAYBACK_TEST_RE = re.compile(r"fn (kani_concrete_playback_\w+)")


def playback(h, ovdir, rundir):
    """Re-run a failing harness with concrete playback (in place, inside the scratch overlay copy) and execute
    the generated unit test natively (rustc-compiled real first-party code + shims). Returns dict."""
    key = h["profile"] + ("-" + h["features"] if h.get("features") else "")
    out = {"reproduced": False, "test": None, "native_tail": ""}
    with Slot(key + "-pb") as slot:
        ws = os.path.join(slot.dir, "ws")
        sh(["rsync", "-a", "--delete", ovdir + "/", ws + "/"])
        env = dict(os.environ)
        env.update(CARGO_NET_OFFLINE="true", CARGO_TARGET_DIR=os.path.join(slot.dir, "target"))
        cmd = kani_cmd(h, ["-Z", "concrete-playback", "--concrete-playback=inplace"])
        timeout = int(h.get("timeout", 600)) * 2
        r = sh(["bash", "-c", "ulimit -v %d; exec timeout -k 10 %d %s" % (
            int(h.get("mem_gb", 12) * 1048576), timeout, " ".join("'%s'" % c for c in cmd))], cwd=ws, env=env)
        hfile = None
        for f in os.listdir(os.path.join(ws, "_harness")):
            p = os.path.join(ws, "_harness", f)
            if os.path.isfile(p) and "kani_concrete_playback_" + h["name"] in open(p, errors="replace").read():
                hfile = p
        if not hfile:
            out["native_tail"] = "no playback test generated\n" + r.stdout[-1500:]
            return out
        src = open(hfile).read()
        m = re.search(r"(/// Test generated for harness[^\n]*\n)?#\[test\]\s*\n\s*fn (kani_concrete_playback_%s\w*)\(\) \{.*?\n\}\n" % re.escape(h["name"]), src, re.S)
        tname = m.group(2) if m else None
        out["test"] = m.group(0) if m else None
        pkg = h.get("pkg") or PKG_OF_PROFILE.get(h["profile"], "consensus")
        env2 = dict(env)
        env2.pop("CARGO_TARGET_DIR", None)
        pc = ["cargo", "kani", "playback", "-Z", "concrete-playback", "-p", pkg]
        if h.get("features"):
            pc += ["--features", h["features"]]
        pc += ["--", tname or "kani_concrete_playback"]
        r2 = sh(["bash", "-c", "exec timeout -k 10 900 " + " ".join("'%s'" % c for c in pc)], cwd=ws, env=env2)
        out["native_tail"] = r2.stdout[-3000:]
        out["reproduced"] = bool(re.search(r"test result: FAILED|panicked at", r2.stdout)) and "0 passed; 1 failed" in r2.stdout or \
            bool(re.search(r"test .*%s.* \.\.\. FAILED" % re.escape(tname or "@@"), r2.stdout))
        if not KEEP:
            shutil.rmtree(slot.dir, ignore_errors=True)
    return out


# ----------------------------------------------------------------------------- known findings
def load_known():
    p = os.path.join(ROOT, "known_findings.json")
    if not os.path.exists(p):
        return []
    return json.load(open(p)).get("findings", [])


def match_known(pid, hname, failed, known):
    """Split failed checks into (matched known entries, unmatched checks). A `fixed` entry suppresses nothing."""
    hits, rest = [], []
    for f in failed:
        hit = None
        for k in known:
            if k.get("status") != "known" or k["property"] != pid:
                continue
            if re.search(k["harness"], hname) and re.search(k["check"], f["desc"] + " @ " + f["loc"]):
                hit = k
                break
        (hits if hit else rest).append((f, hit))
    return hits, rest


# ----------------------------------------------------------------------------- main entry
def run_property(pid, spec, tier, seed, only=None, jobs=0):
    t0 = time.time()
    rundir = os.path.join(SCRATCH, "run-%s-%d" % (pid, os.getpid()))
    shutil.rmtree(rundir, ignore_errors=True)
    os.makedirs(rundir)
    hs = [dict(h) for h in spec.get("harnesses", []) if tier == "thorough" or h.get("tier", "quick") == "quick"]
    if only:
        names = set(only.split(","))
        hs = [h for h in hs if h["name"] in names]
    known = load_known()
    results, overlays, reports = [], {}, {}
    inconclusive, violations, known_hits = [], [], []
    try:
        for prof in sorted(set(h["profile"] for h in hs)):
            try:
                overlays[prof], reports[prof] = build_overlay(prof, rundir)
            except Exception as e:  # noqa
                log("INCONCLUSIVE overlay %s: %s" % (prof, e))
                inconclusive.append("overlay-" + prof)
        jobs = jobs or max(1, min(len(hs), int(os.environ.get("VERIF_PAR", str(max(2, NCPU // 2))))))
        lock = threading.Lock()

        def work(h):
            if h["profile"] not in overlays:
                return h, "BUILD", {"failed": [], "covers": [], "checks": 0, "functions": []}, "", 0.0
            st, parsed, logp, wall, _ = run_kani(h, overlays[h["profile"]], rundir)
            with lock:
                log("  [%s] %-34s %-8s %6.1fs  checks=%d failed=%d covers=%s" % (
                    pid, h["name"], st, wall, parsed["checks"], len(parsed["failed"]),
                    "%d/%d" % (len([c for c in parsed["covers"] if c["status"] == "SATISFIED"]), len(parsed["covers"]))))
            return h, st, parsed, logp, wall

        if hs:
            with cf.ThreadPoolExecutor(max_workers=jobs) as ex:
                results = list(ex.map(work, hs))

        # ---- other solver engines (z3 / cvc5 encodings)
        engine_results = []
        for eng in spec.get("engines", []):
            if only:
                continue
            er = eng(tier=tier, seed=seed, rundir=rundir, repo=REPO, overlays=overlays, results=results)
            engine_results.append(er)
            log("  [%s] engine %-27s %-8s %6.1fs  queries=%d" % (pid, er["name"], er["status"], er["wall_s"], er["queries"]))
            if er["status"] == "FAIL":
                violations.append({"harness": er["name"], "failed": er.get("failed", []), "replay": er.get("replay")})
            elif er["status"] != "PASS":
                inconclusive.append(er["name"])

        # ---- classify Kani results
        samples = []
        obligations = discharged = queries = 0
        solver_s = 0.0
        functions = set()
        nontrivial = 0
        for h, st, parsed, logp, wall in results:
            queries += 1
            obligations += parsed["checks"] + len(parsed["covers"])
            solver_s += parsed.get("solver_s") or 0.0
            functions.update(parsed["functions"])
            sample = {"harness": h["name"], "profile": h["profile"], "status": st, "wall_s": round(wall, 1),
                      "solver_s": parsed.get("solver_s"), "symbolic": h.get("symbolic", ""), "bounds": h.get("bounds", ""),
                      "asserts": h.get("asserts", ""), "checks": parsed["checks"],
                      "covers": ["%s: %s" % (c["desc"], c["status"]) for c in parsed["covers"]]}
            if st == "PASS":
                discharged += parsed["checks"] + len(parsed["covers"])
                if parsed["checks"] > 0:
                    nontrivial += 1
            elif st == "FAIL":
                hits, rest = match_known(pid, h["name"], parsed["failed"], known)
                discharged += parsed["checks"] - len(parsed["failed"])
                if hits and not rest:
                    for f, k in hits:
                        known_hits.append((k, f))
                    sample["status"] = "KNOWN-FINDING"
                    nontrivial += 1
                else:
                    pb = playback(h, overlays[h["profile"]], rundir)
                    rp = save_replay(pid, h, [f for f, _ in rest] or parsed["failed"], pb, logp)
                    sample["failed"] = [f["desc"] + " @ " + f["loc"] for f, _ in rest]
                    sample["replay"] = rp
                    if pb["reproduced"]:
                        violations.append({"harness": h["name"], "failed": sample["failed"], "replay": rp})
                    else:
                        log("INCONCLUSIVE %s: counterexample did not reproduce natively (see %s)" % (h["name"], rp))
                        inconclusive.append(h["name"] + ":noreplay")
            else:
                inconclusive.append("%s:%s" % (h["name"], st))
                keep = os.path.join(SCRATCH, "logs", pid)
                os.makedirs(keep, exist_ok=True)
                if logp and os.path.exists(logp):
                    shutil.copy(logp, keep)
                    sample["log"] = os.path.join(keep, os.path.basename(logp))
            samples.append(sample)
        for er in engine_results:
            queries += er["queries"]
            obligations += er.get("obligations", er["queries"])
            discharged += er.get("discharged", er["queries"] if er["status"] == "PASS" else 0)
            solver_s += er.get("solver_s", 0.0)
            functions.update(er.get("functions", []))
            nontrivial += er.get("nontrivial", 1 if er["status"] == "PASS" else 0)
            samples.append({k: v for k, v in er.items() if k not in ("functions",)})

        # ---- report
        seen = set()
        for k, f in known_hits:
            if k["id"] not in seen:
                seen.add(k["id"])
                log("KNOWN-FINDING: property=%s %s [%s]" % (pid, k["what"], k["id"]))
        for v in violations:
            log("VIOLATION property=%s replay=%s" % (pid, v["replay"]))
            for d in v["failed"][:5]:
                log("    " + str(d))
        for i in inconclusive:
            log("INCONCLUSIVE property=%s %s" % (pid, i))
        wall = time.time() - t0
        if not only:
            ev = {
                "property_id": pid, "tier": tier, "seed": seed, "level": spec.get("level", "model_checking"),
                "coverage": {
                    "evaluations": queries, "distinct_nontrivial": nontrivial,
                    "rule": "one evaluation = one solver query (a Kani/CBMC harness run over the real source in the shim overlay, or one "
                            "SMT query); non-trivial = verdict obtained with >=1 reachable assertion AND every kani::cover! vacuity "
                            "witness SATISFIED; distinct = distinct harness/query names",
                    "obligations": obligations, "discharged": discharged,
                    "checker_cmd": "cargo kani (0.68, CBMC 6.11, cadical) -Z unstable-options --no-memory-safety-checks --harness <h> --exact; unwinding assertions on",
                    "trusted_base": spec.get("trusted_base", []),
                    "functions_encoded": sorted(functions),
                    "bounds": spec.get("bounds", ""), "outside_bounds": spec.get("outside", ""),
                    "solver_time_s": round(solver_s, 1),
                    "overlay": {p: {"rewritten_imports": r["rewritten_imports"], "real_files": r["real_files"]} for p, r in reports.items()},
                    "known_findings_reported": sorted(seen),
                    "inconclusive": inconclusive,
                    "samples": samples, "exhaustive": False,
                    "explanation": spec.get("explanation", ""),
                },
                "assumptions": spec.get("assumptions", []),
                "wall_s": round(wall, 1), "violations": len(violations),
            }
            os.makedirs(os.path.join(ROOT, "evidence"), exist_ok=True)
            json.dump(ev, open(os.path.join(ROOT, "evidence", pid + ".json"), "w"), indent=1)
        log("%s tier=%s: %d queries, %d/%d obligations discharged, %d violation(s), %d inconclusive, %.0fs" % (
            pid, tier, queries, discharged, obligations, len(violations), len(inconclusive), wall))
        if violations:
            return 1
        if inconclusive:
            return 2
        return 0
    finally:
        if not KEEP:
            shutil.rmtree(rundir, ignore_errors=True)
        slot_cleanup()


def save_replay(pid, h, failed, pb, logp):
    d = os.path.join(ROOT, "replays", pid)
    os.makedirs(d, exist_ok=True)
    p = os.path.join(d, h["name"] + ".json")
    json.dump({"property": pid, "harness": h, "failed_checks": failed, "playback_test": pb.get("test"),
               "reproduced_natively": pb.get("reproduced"), "native_output_tail": pb.get("native_tail"),
               "how": "cargo kani -Z concrete-playback --concrete-playback=inplace, then cargo kani playback (native run of the "
                      "real first-party code in the overlay with the solver's values)"}, open(p, "w"), indent=1)
    return p


def replay_saved(pid, path):
    """Re-execute a saved counterexample: rebuild the overlay from the current tree, regenerate the playback test for the
    same harness and run it natively. exit 1 if it still fails (violation reproduced), 0 if it no longer fails."""
    rp = json.load(open(path))
    h = rp["harness"]
    rundir = os.path.join(SCRATCH, "replay-%s-%d" % (pid, os.getpid()))
    os.makedirs(rundir, exist_ok=True)
    try:
        ov, _ = build_overlay(h["profile"], rundir)
        st, parsed, logp, wall, _ = run_kani(h, ov, rundir)
        if st != "FAIL":
            log("replay: harness %s now %s" % (h["name"], st))
            return 0 if st == "PASS" else 2
        pb = playback(h, ov, rundir)
        log(pb["native_tail"][-1500:])
        if pb["reproduced"]:
            log("VIOLATION property=%s replay=%s" % (pid, path))
            return 1
        return 2
    finally:
        shutil.rmtree(rundir, ignore_errors=True)
        slot_cleanup()

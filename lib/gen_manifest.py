#!/usr/bin/env python3
"""Regenerate /verif/MANIFEST.json from kani/specs.py (claimed checks) and NOT_APPLICABLE below."""
import json
import os
import sys

ROOT = os.path.dirname(os.path.dirname(os.path.abspath(__file__)))
sys.path.insert(0, os.path.join(ROOT, "kani"))
import specs  # noqa: E402

ALL = ["C%02d" % i for i in range(1, 21)]

NOT_APPLICABLE = {
    "C06": "Liveness under partial synchrony is an unbounded-time statement over timers, task scheduling, TCP and N processes; no bounded "
           "symbolic execution of first-party code decides it, and a bounded SMT model would check a model of tokio/the network, not the repository.",
    "C13": "End-to-end inclusion of every submitted transaction at all nodes is a multi-process liveness statement over TCP, timers and RocksDB; "
           "its mechanisms are decided individually under C08/C11/C12, nothing is claimed for C13 itself.",
}
NOT_APPLICABLE["C12"] = ("The quorum-waiting logic is the body of a select! branch inside QuorumWaiter::run, a compiler-generated coroutine that keeps its "
                         "locals across await points; Kani encodes such state machines so that CBMC loses the constant shapes of everything stored in them. Two "
                         "encodings of the real run loop were measured (one batch, three acknowledgement handles, symbolic stakes; kani/harness/quorum_waiter_h.rs, "
                         "shims/futures): the coroutine polled as is, and the loop lowered to a plain function with a synchronous select (the lowering that "
                         "decides BatchMaker::run for C11), first with the per-handler `waiter` futures as boxed coroutines inside FuturesUnordered, then with `waiter` "
                         "lowered to a plain struct future as well; none finished symbolic execution in 900..1000 s (a debugger backtrace of the last attempt shows "
                         "CBMC's expression simplifier working on byte extracts over deeply nested union types, i.e. the coroutine/select types the loop still "
                         "mentions). A fourth encoding (round 5) made the shim FuturesUnordered type-erased (slots of `dyn Future`), so that the never-filled `pending` container no longer carries the nested select! coroutine type into the frame: both probes (c12_acked_2, c12_acked_123) still ran into the 900 s cap (1.1 GB resident, i.e. slow symbolic execution rather than memory growth). Copying the branch body into a harness would no longer be the real code, so nothing is claimed.")
NOT_APPLICABLE["C14"] = ("Connection::run / keep_alive are select!-based coroutines over TcpStream/Framed (same obstacle as C12, measured on the smaller "
                         "QuorumWaiter run loop: no result in 900..1000 s, as a coroutine and lowered); a scripted-I/O encoding of them was therefore not attempted beyond the design.")
PENDING = "check not built yet in this revision (solver-based harness planned, see DESIGN.md section 4); not claimed until it runs"


def main():
    checks = []
    for pid in ALL:
        if pid not in specs.SPECS or pid not in specs.READY:
            continue
        s = specs.SPECS[pid]
        checks.append({
            "property_id": pid,
            "quick_cmd": "./check %s --tier quick" % pid,
            "thorough_cmd": "./check %s --tier thorough" % pid,
            "evidence_file": "/verif/evidence/%s.json" % pid,
            "replay_cmd_template": "./check %s --replay {path}" % pid,
            "engine": "kani-overlay" + ("+smt" if s.get("engines") else ""),
            "level_claimed": {
                "category": s.get("level", "model_checking"),
                "text": s.get("level_text") or (
                    "Bounded symbolic model checking of the real source: every listed harness executes the repository's own functions "
                    "symbolically (Kani -> CBMC -> SAT) with inputs/state/orders as solver variables and the property as assertions; "
                    "holds for ALL values within the stated shape bounds (unwinding assertions on), nothing is claimed outside them. "
                    "Bounds: " + s.get("bounds", "")),
                "design_ref": s.get("design_ref", "DESIGN.md section 4, " + pid),
            },
            "level_note": "Trusted: " + "; ".join(s.get("trusted_base", [])) + ". Assumed: " + "; ".join(s.get("assumptions", [])) +
                          ". Outside the claim: " + s.get("outside", ""),
            "technique": s.get("technique", "bounded symbolic execution of the real code (Kani/CBMC + SAT)"),
        })
    na = []
    for pid in ALL:
        if pid in specs.SPECS and pid in specs.READY:
            continue
        na.append({"property_id": pid, "reason": NOT_APPLICABLE.get(pid, PENDING)})
    man = {
        "version": 1,
        "setup_cmd": "python3 lib/setup_check.py",
        "hooks": {
            "guard": "kani",
            "enable": "no source hooks in /repo: each check copies /repo's working tree to a scratch overlay and appends `#[cfg(kani)] #[path] mod` "
                      "lines there (kani/overlay.py); cfg(kani) is set by cargo-kani itself",
            "baseline_off_cmd": "cd /repo && cargo test --workspace --no-fail-fast --offline",
            "source_commits": [],
            "add_only": True,
        },
        "engines": [
            {"name": "kani-overlay", "path": "kani/", "serves_properties": [c["property_id"] for c in checks],
             "kind_free_text": "Kani 0.68/CBMC 6.11 bounded symbolic execution of the repository's real source files compiled against "
                               "environment shims (tokio, store, network, ideal crypto, array-backed hash containers); regenerated from /repo on every run"},
            {"name": "smt", "path": "smt/", "serves_properties": [p for p in ALL if p in specs.SPECS and p in specs.READY and specs.SPECS[p].get("engines")],
             "kind_free_text": "z3 / cvc5 queries whose inputs (arithmetic expression from the MIR dump, node-local rule table extracted by Kani) "
                               "are recomputed from /repo's current source on every run"},
        ],
        "checks": checks,
        "not_applicable": na,
        "notes": "Every check exits 2 (never 0) on timeout, out-of-memory, overlay build failure, vacuous harness or non-reproducing counterexample. "
                 "Known findings: /verif/known_findings.json.",
    }
    json.dump(man, open(os.path.join(ROOT, "MANIFEST.json"), "w"), indent=1)
    print("MANIFEST.json: %d checks, %d not applicable" % (len(checks), len(na)))


if __name__ == "__main__":
    main()

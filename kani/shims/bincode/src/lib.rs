//! Verification shim for bincode 1.3 (profile L only; profile R uses the real crate).
//! Same wire format as `bincode::serialize` / `bincode::deserialize` with default options
//! (little-endian fixed-width integers, u64 length prefixes, u32 enum variant indices, u8 option/bool tags),
//! implemented directly on serde's traits so the *real* derived Serialize/Deserialize code of the
//! repository's message types runs. Differences: no size limit, no io::Error, and error values carry no
//! formatted message (serde's `Error::custom(format_args!(..))` is the dominant symbolic-execution cost
//! of the real crate).
use serde::de::{self, DeserializeSeed, IntoDeserializer, Visitor};
use serde::ser::{self, Serialize};
use std::fmt;

#[derive(Debug)]
pub enum ErrorKind {
    /// ran out of input
    Eof,
    /// invalid tag / encoding
    Invalid,
    /// serde-generated error (message dropped)
    Custom,
    /// feature bincode does not support
    Unsupported,
}
pub type Error = Box<ErrorKind>;
pub type Result<T> = std::result::Result<T, Error>;
impl fmt::Display for ErrorKind {
    fn fmt(&self, f: &mut fmt::Formatter) -> fmt::Result {
        f.write_str("bincode error")
    }
}
impl std::error::Error for ErrorKind {}
impl ser::Error for Error {
    fn custom<T: fmt::Display>(_msg: T) -> Self {
        Box::new(ErrorKind::Custom)
    }
}
impl de::Error for Error {
    fn custom<T: fmt::Display>(_msg: T) -> Self {
        Box::new(ErrorKind::Custom)
    }
}

pub fn serialize<T: ?Sized + Serialize>(value: &T) -> Result<Vec<u8>> {
    let mut s = Ser { out: Vec::with_capacity(128) };
    value.serialize(&mut s)?;
    Ok(s.out)
}
pub fn deserialize<'a, T: de::Deserialize<'a>>(bytes: &'a [u8]) -> Result<T> {
    let mut d = De { buf: bytes, pos: 0 };
    T::deserialize(&mut d)
}

pub struct Ser {
    pub out: Vec<u8>,
}
impl Ser {
    fn put(&mut self, b: &[u8]) {
        let mut i = 0;
        while i < b.len() {
            self.out.push(b[i]);
            i += 1;
        }
    }
}
macro_rules! ser_int {
    ($f:ident, $t:ty) => {
        fn $f(self, v: $t) -> Result<()> {
            self.put(&v.to_le_bytes());
            Ok(())
        }
    };
}
impl<'a> ser::Serializer for &'a mut Ser {
    type Ok = ();
    type Error = Error;
    type SerializeSeq = Self;
    type SerializeTuple = Self;
    type SerializeTupleStruct = Self;
    type SerializeTupleVariant = Self;
    type SerializeMap = Self;
    type SerializeStruct = Self;
    type SerializeStructVariant = Self;
    fn is_human_readable(&self) -> bool {
        false
    }
    fn serialize_bool(self, v: bool) -> Result<()> {
        self.out.push(v as u8);
        Ok(())
    }
    ser_int!(serialize_i8, i8);
    ser_int!(serialize_i16, i16);
    ser_int!(serialize_i32, i32);
    ser_int!(serialize_i64, i64);
    ser_int!(serialize_i128, i128);
    ser_int!(serialize_u8, u8);
    ser_int!(serialize_u16, u16);
    ser_int!(serialize_u32, u32);
    ser_int!(serialize_u64, u64);
    ser_int!(serialize_u128, u128);
    fn serialize_f32(self, v: f32) -> Result<()> {
        self.put(&v.to_le_bytes());
        Ok(())
    }
    fn serialize_f64(self, v: f64) -> Result<()> {
        self.put(&v.to_le_bytes());
        Ok(())
    }
    fn serialize_char(self, v: char) -> Result<()> {
        let mut b = [0u8; 4];
        let s = v.encode_utf8(&mut b);
        self.put(s.as_bytes());
        Ok(())
    }
    fn serialize_str(self, v: &str) -> Result<()> {
        self.put(&(v.len() as u64).to_le_bytes());
        self.put(v.as_bytes());
        Ok(())
    }
    fn serialize_bytes(self, v: &[u8]) -> Result<()> {
        self.put(&(v.len() as u64).to_le_bytes());
        self.put(v);
        Ok(())
    }
    fn serialize_none(self) -> Result<()> {
        self.out.push(0);
        Ok(())
    }
    fn serialize_some<T: ?Sized + Serialize>(self, v: &T) -> Result<()> {
        self.out.push(1);
        v.serialize(self)
    }
    fn serialize_unit(self) -> Result<()> {
        Ok(())
    }
    fn serialize_unit_struct(self, _: &'static str) -> Result<()> {
        Ok(())
    }
    fn serialize_unit_variant(self, _: &'static str, idx: u32, _: &'static str) -> Result<()> {
        self.put(&idx.to_le_bytes());
        Ok(())
    }
    fn serialize_newtype_struct<T: ?Sized + Serialize>(self, _: &'static str, v: &T) -> Result<()> {
        v.serialize(self)
    }
    fn serialize_newtype_variant<T: ?Sized + Serialize>(self, _: &'static str, idx: u32, _: &'static str, v: &T) -> Result<()> {
        self.put(&idx.to_le_bytes());
        v.serialize(self)
    }
    fn serialize_seq(self, len: Option<usize>) -> Result<Self> {
        match len {
            Some(n) => {
                self.put(&(n as u64).to_le_bytes());
                Ok(self)
            }
            None => Err(Box::new(ErrorKind::Unsupported)),
        }
    }
    fn serialize_tuple(self, _: usize) -> Result<Self> {
        Ok(self)
    }
    fn serialize_tuple_struct(self, _: &'static str, _: usize) -> Result<Self> {
        Ok(self)
    }
    fn serialize_tuple_variant(self, _: &'static str, idx: u32, _: &'static str, _: usize) -> Result<Self> {
        self.put(&idx.to_le_bytes());
        Ok(self)
    }
    fn serialize_map(self, len: Option<usize>) -> Result<Self> {
        match len {
            Some(n) => {
                self.put(&(n as u64).to_le_bytes());
                Ok(self)
            }
            None => Err(Box::new(ErrorKind::Unsupported)),
        }
    }
    fn serialize_struct(self, _: &'static str, _: usize) -> Result<Self> {
        Ok(self)
    }
    fn serialize_struct_variant(self, _: &'static str, idx: u32, _: &'static str, _: usize) -> Result<Self> {
        self.put(&idx.to_le_bytes());
        Ok(self)
    }
}
impl<'a> ser::SerializeSeq for &'a mut Ser {
    type Ok = ();
    type Error = Error;
    fn serialize_element<T: ?Sized + Serialize>(&mut self, v: &T) -> Result<()> {
        v.serialize(&mut **self)
    }
    fn end(self) -> Result<()> {
        Ok(())
    }
}
impl<'a> ser::SerializeTuple for &'a mut Ser {
    type Ok = ();
    type Error = Error;
    fn serialize_element<T: ?Sized + Serialize>(&mut self, v: &T) -> Result<()> {
        v.serialize(&mut **self)
    }
    fn end(self) -> Result<()> {
        Ok(())
    }
}
impl<'a> ser::SerializeTupleStruct for &'a mut Ser {
    type Ok = ();
    type Error = Error;
    fn serialize_field<T: ?Sized + Serialize>(&mut self, v: &T) -> Result<()> {
        v.serialize(&mut **self)
    }
    fn end(self) -> Result<()> {
        Ok(())
    }
}
impl<'a> ser::SerializeTupleVariant for &'a mut Ser {
    type Ok = ();
    type Error = Error;
    fn serialize_field<T: ?Sized + Serialize>(&mut self, v: &T) -> Result<()> {
        v.serialize(&mut **self)
    }
    fn end(self) -> Result<()> {
        Ok(())
    }
}
impl<'a> ser::SerializeMap for &'a mut Ser {
    type Ok = ();
    type Error = Error;
    fn serialize_key<T: ?Sized + Serialize>(&mut self, v: &T) -> Result<()> {
        v.serialize(&mut **self)
    }
    fn serialize_value<T: ?Sized + Serialize>(&mut self, v: &T) -> Result<()> {
        v.serialize(&mut **self)
    }
    fn end(self) -> Result<()> {
        Ok(())
    }
}
impl<'a> ser::SerializeStruct for &'a mut Ser {
    type Ok = ();
    type Error = Error;
    fn serialize_field<T: ?Sized + Serialize>(&mut self, _: &'static str, v: &T) -> Result<()> {
        v.serialize(&mut **self)
    }
    fn end(self) -> Result<()> {
        Ok(())
    }
}
impl<'a> ser::SerializeStructVariant for &'a mut Ser {
    type Ok = ();
    type Error = Error;
    fn serialize_field<T: ?Sized + Serialize>(&mut self, _: &'static str, v: &T) -> Result<()> {
        v.serialize(&mut **self)
    }
    fn end(self) -> Result<()> {
        Ok(())
    }
}

pub struct De<'de> {
    pub buf: &'de [u8],
    pub pos: usize,
}
impl<'de> De<'de> {
    fn take<const N: usize>(&mut self) -> Result<[u8; N]> {
        if self.buf.len() - self.pos < N {
            return Err(Box::new(ErrorKind::Eof));
        }
        let mut b = [0u8; N];
        let mut i = 0;
        while i < N {
            b[i] = self.buf[self.pos + i];
            i += 1;
        }
        self.pos += N;
        Ok(b)
    }
    fn len(&mut self) -> Result<usize> {
        let n = u64::from_le_bytes(self.take::<8>()?);
        // a length prefix larger than the remaining input cannot be honoured (every element takes >= 0 bytes;
        // like bincode we only fail when the data runs out, but we refuse absurd pre-allocations)
        Ok(n as usize)
    }
    fn bytes(&mut self, n: usize) -> Result<&'de [u8]> {
        if self.buf.len() - self.pos < n {
            return Err(Box::new(ErrorKind::Eof));
        }
        let s = &self.buf[self.pos..self.pos + n];
        self.pos += n;
        Ok(s)
    }
}
macro_rules! de_int {
    ($f:ident, $v:ident, $t:ty, $n:expr) => {
        fn $f<V: Visitor<'de>>(self, visitor: V) -> Result<V::Value> {
            visitor.$v(<$t>::from_le_bytes(self.take::<$n>()?))
        }
    };
}
impl<'de, 'a> de::Deserializer<'de> for &'a mut De<'de> {
    type Error = Error;
    fn is_human_readable(&self) -> bool {
        false
    }
    fn deserialize_any<V: Visitor<'de>>(self, _: V) -> Result<V::Value> {
        Err(Box::new(ErrorKind::Unsupported))
    }
    fn deserialize_bool<V: Visitor<'de>>(self, visitor: V) -> Result<V::Value> {
        match self.take::<1>()?[0] {
            0 => visitor.visit_bool(false),
            1 => visitor.visit_bool(true),
            _ => Err(Box::new(ErrorKind::Invalid)),
        }
    }
    de_int!(deserialize_i8, visit_i8, i8, 1);
    de_int!(deserialize_i16, visit_i16, i16, 2);
    de_int!(deserialize_i32, visit_i32, i32, 4);
    de_int!(deserialize_i64, visit_i64, i64, 8);
    de_int!(deserialize_i128, visit_i128, i128, 16);
    de_int!(deserialize_u8, visit_u8, u8, 1);
    de_int!(deserialize_u16, visit_u16, u16, 2);
    de_int!(deserialize_u32, visit_u32, u32, 4);
    de_int!(deserialize_u64, visit_u64, u64, 8);
    de_int!(deserialize_u128, visit_u128, u128, 16);
    de_int!(deserialize_f32, visit_f32, f32, 4);
    de_int!(deserialize_f64, visit_f64, f64, 8);
    fn deserialize_char<V: Visitor<'de>>(self, _: V) -> Result<V::Value> {
        Err(Box::new(ErrorKind::Unsupported))
    }
    fn deserialize_str<V: Visitor<'de>>(self, visitor: V) -> Result<V::Value> {
        let n = self.len()?;
        let b = self.bytes(n)?;
        match std::str::from_utf8(b) {
            Ok(s) => visitor.visit_borrowed_str(s),
            Err(_) => Err(Box::new(ErrorKind::Invalid)),
        }
    }
    fn deserialize_string<V: Visitor<'de>>(self, visitor: V) -> Result<V::Value> {
        self.deserialize_str(visitor)
    }
    fn deserialize_bytes<V: Visitor<'de>>(self, visitor: V) -> Result<V::Value> {
        let n = self.len()?;
        let b = self.bytes(n)?;
        visitor.visit_borrowed_bytes(b)
    }
    fn deserialize_byte_buf<V: Visitor<'de>>(self, visitor: V) -> Result<V::Value> {
        self.deserialize_bytes(visitor)
    }
    fn deserialize_option<V: Visitor<'de>>(self, visitor: V) -> Result<V::Value> {
        match self.take::<1>()?[0] {
            0 => visitor.visit_none(),
            1 => visitor.visit_some(self),
            _ => Err(Box::new(ErrorKind::Invalid)),
        }
    }
    fn deserialize_unit<V: Visitor<'de>>(self, visitor: V) -> Result<V::Value> {
        visitor.visit_unit()
    }
    fn deserialize_unit_struct<V: Visitor<'de>>(self, _: &'static str, visitor: V) -> Result<V::Value> {
        visitor.visit_unit()
    }
    fn deserialize_newtype_struct<V: Visitor<'de>>(self, _: &'static str, visitor: V) -> Result<V::Value> {
        visitor.visit_newtype_struct(self)
    }
    fn deserialize_seq<V: Visitor<'de>>(self, visitor: V) -> Result<V::Value> {
        let n = self.len()?;
        visitor.visit_seq(Access { de: self, left: n })
    }
    fn deserialize_tuple<V: Visitor<'de>>(self, len: usize, visitor: V) -> Result<V::Value> {
        visitor.visit_seq(Access { de: self, left: len })
    }
    fn deserialize_tuple_struct<V: Visitor<'de>>(self, _: &'static str, len: usize, visitor: V) -> Result<V::Value> {
        visitor.visit_seq(Access { de: self, left: len })
    }
    fn deserialize_map<V: Visitor<'de>>(self, visitor: V) -> Result<V::Value> {
        let n = self.len()?;
        visitor.visit_map(Access { de: self, left: n })
    }
    fn deserialize_struct<V: Visitor<'de>>(self, _: &'static str, fields: &'static [&'static str], visitor: V) -> Result<V::Value> {
        visitor.visit_seq(Access { de: self, left: fields.len() })
    }
    fn deserialize_enum<V: Visitor<'de>>(self, _: &'static str, _: &'static [&'static str], visitor: V) -> Result<V::Value> {
        visitor.visit_enum(self)
    }
    fn deserialize_identifier<V: Visitor<'de>>(self, _: V) -> Result<V::Value> {
        Err(Box::new(ErrorKind::Unsupported))
    }
    fn deserialize_ignored_any<V: Visitor<'de>>(self, _: V) -> Result<V::Value> {
        Err(Box::new(ErrorKind::Unsupported))
    }
}
struct Access<'a, 'de> {
    de: &'a mut De<'de>,
    left: usize,
}
impl<'de, 'a> de::SeqAccess<'de> for Access<'a, 'de> {
    type Error = Error;
    fn next_element_seed<T: DeserializeSeed<'de>>(&mut self, seed: T) -> Result<Option<T::Value>> {
        if self.left == 0 {
            return Ok(None);
        }
        self.left -= 1;
        seed.deserialize(&mut *self.de).map(Some)
    }
    fn size_hint(&self) -> Option<usize> {
        Some(self.left)
    }
}
impl<'de, 'a> de::MapAccess<'de> for Access<'a, 'de> {
    type Error = Error;
    fn next_key_seed<K: DeserializeSeed<'de>>(&mut self, seed: K) -> Result<Option<K::Value>> {
        if self.left == 0 {
            return Ok(None);
        }
        self.left -= 1;
        seed.deserialize(&mut *self.de).map(Some)
    }
    fn next_value_seed<V: DeserializeSeed<'de>>(&mut self, seed: V) -> Result<V::Value> {
        seed.deserialize(&mut *self.de)
    }
    fn size_hint(&self) -> Option<usize> {
        Some(self.left)
    }
}
impl<'de, 'a> de::EnumAccess<'de> for &'a mut De<'de> {
    type Error = Error;
    type Variant = Self;
    fn variant_seed<V: DeserializeSeed<'de>>(self, seed: V) -> Result<(V::Value, Self)> {
        let idx = u32::from_le_bytes(self.take::<4>()?);
        let v = seed.deserialize(IntoDeserializer::<Error>::into_deserializer(idx))?;
        Ok((v, self))
    }
}
impl<'de, 'a> de::VariantAccess<'de> for &'a mut De<'de> {
    type Error = Error;
    fn unit_variant(self) -> Result<()> {
        Ok(())
    }
    fn newtype_variant_seed<T: DeserializeSeed<'de>>(self, seed: T) -> Result<T::Value> {
        seed.deserialize(self)
    }
    fn tuple_variant<V: Visitor<'de>>(self, len: usize, visitor: V) -> Result<V::Value> {
        de::Deserializer::deserialize_tuple(self, len, visitor)
    }
    fn struct_variant<V: Visitor<'de>>(self, fields: &'static [&'static str], visitor: V) -> Result<V::Value> {
        de::Deserializer::deserialize_tuple(self, fields.len(), visitor)
    }
}

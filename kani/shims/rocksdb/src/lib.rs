//! Verification shim for rocksdb (profile S): `DB::open_default / put / get` over one global in-memory table of 4 slots
//! (last write wins, overflow is a hard error). Durability across re-open and everything else RocksDB does is NOT modelled.
pub struct Cell<T>(std::cell::UnsafeCell<T>);
unsafe impl<T> Sync for Cell<T> {}
impl<T> Cell<T> {
    pub const fn new(v: T) -> Self {
        Cell(std::cell::UnsafeCell::new(v))
    }
    #[allow(clippy::mut_from_ref)]
    pub fn get(&self) -> &mut T {
        unsafe { &mut *self.0.get() }
    }
}
pub const CAP: usize = 4;
pub struct Table {
    pub items: [Option<(Vec<u8>, Vec<u8>)>; CAP],
    pub n: usize,
    pub puts: usize,
}
pub static TABLE: Cell<Table> = Cell::new(Table { items: [None, None, None, None], n: 0, puts: 0 });
#[derive(Debug)]
pub struct Error;
impl std::fmt::Display for Error {
    fn fmt(&self, f: &mut std::fmt::Formatter) -> std::fmt::Result {
        f.write_str("rocksdb error")
    }
}
impl std::error::Error for Error {}
pub struct DB;
impl DB {
    pub fn open_default<P: AsRef<std::path::Path>>(_path: P) -> Result<DB, Error> {
        Ok(DB)
    }
    pub fn put<K: AsRef<[u8]>, V: AsRef<[u8]>>(&self, key: K, value: V) -> Result<(), Error> {
        let t = TABLE.get();
        t.puts += 1;
        let k = key.as_ref();
        let mut i = 0;
        while i < t.n {
            let same = match &t.items[i] {
                Some((kk, _)) => kk.as_slice() == k,
                None => false,
            };
            if same {
                t.items[i] = Some((k.to_vec(), value.as_ref().to_vec()));
                return Ok(());
            }
            i += 1;
        }
        if t.n >= CAP {
            panic!("rocksdb shim: capacity bound exceeded");
        }
        let n = t.n;
        t.items[n] = Some((k.to_vec(), value.as_ref().to_vec()));
        t.n += 1;
        Ok(())
    }
    pub fn get<K: AsRef<[u8]>>(&self, key: K) -> Result<Option<Vec<u8>>, Error> {
        let t = TABLE.get();
        let k = key.as_ref();
        let mut i = 0;
        while i < t.n {
            if let Some((kk, v)) = &t.items[i] {
                if kk.as_slice() == k {
                    return Ok(Some(v.clone()));
                }
            }
            i += 1;
        }
        Ok(None)
    }
}

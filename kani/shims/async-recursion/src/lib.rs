//! Verification shim: identity attribute. The call graph of the async fns that carry
//! #[async_recursion] in consensus/src/core.rs has no cycle, so no boxing is needed;
//! if a cycle is ever introduced the overlay fails to compile (reported as inconclusive).
use proc_macro::TokenStream;
#[proc_macro_attribute]
pub fn async_recursion(_attr: TokenStream, item: TokenStream) -> TokenStream { item }

//! Verification shim for the network crate (profiles L/R; profile N verifies the real one):
//! senders record (address, bytes, reliable?) in a log the harness reads; a reliable send returns a
//! real oneshot receiver whose sender is kept in `ACKS` for the harness to resolve (= peer ACK).
use async_trait::async_trait;
use bytes::Bytes;
use std::error::Error;
use std::net::SocketAddr;
use tokio::SeqCell as Mutex;
pub struct Sent {
    pub to: SocketAddr,
    pub data: Bytes,
    pub reliable: bool,
}
pub static SENT: Mutex<Vec<Sent>> = Mutex::new(Vec::new());
pub static ACKS: Mutex<Vec<Option<tokio::sync::oneshot::Sender<Bytes>>>> = Mutex::new(Vec::new());
/// frames written back to the peer through `Writer` (ACKs / replies of a MessageHandler)
pub static REPLIES: Mutex<Vec<Bytes>> = Mutex::new(Vec::new());
/// true: every reliable send is acknowledged at once (the returned handle is already resolved with "Ack")
pub static AUTO_ACK: Mutex<bool> = Mutex::new(false);
pub type CancelHandler = tokio::sync::oneshot::Receiver<Bytes>;
pub struct Writer;
impl futures::sink::Sink<Bytes> for Writer {
    type Error = std::io::Error;
    fn poll_ready(self: std::pin::Pin<&mut Self>, _: &mut std::task::Context<'_>) -> std::task::Poll<Result<(), Self::Error>> {
        std::task::Poll::Ready(Ok(()))
    }
    fn start_send(self: std::pin::Pin<&mut Self>, item: Bytes) -> Result<(), Self::Error> {
        REPLIES.lock().unwrap().push(item);
        Ok(())
    }
    fn poll_flush(self: std::pin::Pin<&mut Self>, _: &mut std::task::Context<'_>) -> std::task::Poll<Result<(), Self::Error>> {
        std::task::Poll::Ready(Ok(()))
    }
    fn poll_close(self: std::pin::Pin<&mut Self>, _: &mut std::task::Context<'_>) -> std::task::Poll<Result<(), Self::Error>> {
        std::task::Poll::Ready(Ok(()))
    }
}
#[async_trait]
pub trait MessageHandler: Clone + Send + Sync + 'static {
    async fn dispatch(&self, writer: &mut Writer, message: Bytes) -> Result<(), Box<dyn Error>>;
}
pub struct Receiver<H: MessageHandler>(std::marker::PhantomData<H>);
impl<H: MessageHandler> Receiver<H> {
    pub fn spawn(_a: SocketAddr, _h: H) {}
}
#[derive(Default)]
pub struct SimpleSender;
impl SimpleSender {
    pub fn new() -> Self {
        Self
    }
    pub async fn send(&mut self, address: SocketAddr, data: Bytes) {
        SENT.lock().unwrap().push(Sent { to: address, data, reliable: false });
    }
    pub async fn broadcast(&mut self, addresses: Vec<SocketAddr>, data: Bytes) {
        for a in addresses {
            self.send(a, data.clone()).await;
        }
    }
    pub async fn lucky_broadcast(&mut self, mut addresses: Vec<SocketAddr>, data: Bytes, nodes: usize) {
        addresses.truncate(nodes);
        self.broadcast(addresses, data).await
    }
}
#[derive(Default)]
pub struct ReliableSender;
impl ReliableSender {
    pub fn new() -> Self {
        Self
    }
    pub async fn send(&mut self, address: SocketAddr, data: Bytes) -> CancelHandler {
        SENT.lock().unwrap().push(Sent { to: address, data, reliable: true });
        let (tx, rx) = tokio::sync::oneshot::channel();
        if *AUTO_ACK.lock().unwrap() {
            let _ = tx.send(Bytes::from("Ack"));
        } else {
            ACKS.lock().unwrap().push(Some(tx));
        }
        rx
    }
    pub async fn broadcast(&mut self, addresses: Vec<SocketAddr>, data: Bytes) -> Vec<CancelHandler> {
        let mut h = Vec::new();
        for a in addresses {
            h.push(self.send(a, data.clone()).await);
        }
        h
    }
    pub async fn lucky_broadcast(&mut self, mut addresses: Vec<SocketAddr>, data: Bytes, nodes: usize) -> Vec<CancelHandler> {
        addresses.truncate(nodes);
        self.broadcast(addresses, data).await
    }
}

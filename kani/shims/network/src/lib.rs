//! Verification shim for the network crate: records outgoing frames.
use async_trait::async_trait;
use bytes::Bytes;
use std::error::Error;
use std::net::SocketAddr;
use tokio::SeqCell as Mutex;
pub static SENT: Mutex<Vec<(SocketAddr, Bytes, bool)>> = Mutex::new(Vec::new());
pub type CancelHandler = tokio::sync::oneshot::Receiver<Bytes>;
pub struct Writer;
impl futures::sink::Sink<Bytes> for Writer {
    type Error = std::io::Error;
    fn poll_ready(self: std::pin::Pin<&mut Self>, _: &mut std::task::Context<'_>) -> std::task::Poll<Result<(), Self::Error>> { std::task::Poll::Ready(Ok(())) }
    fn start_send(self: std::pin::Pin<&mut Self>, _item: Bytes) -> Result<(), Self::Error> { Ok(()) }
    fn poll_flush(self: std::pin::Pin<&mut Self>, _: &mut std::task::Context<'_>) -> std::task::Poll<Result<(), Self::Error>> { std::task::Poll::Ready(Ok(())) }
    fn poll_close(self: std::pin::Pin<&mut Self>, _: &mut std::task::Context<'_>) -> std::task::Poll<Result<(), Self::Error>> { std::task::Poll::Ready(Ok(())) }
}
#[async_trait]
pub trait MessageHandler: Clone + Send + Sync + 'static {
    async fn dispatch(&self, writer: &mut Writer, message: Bytes) -> Result<(), Box<dyn Error>>;
}
pub struct Receiver<H: MessageHandler>(std::marker::PhantomData<H>);
impl<H: MessageHandler> Receiver<H> { pub fn spawn(_a: SocketAddr, _h: H) {} }
#[derive(Default)]
pub struct SimpleSender;
impl SimpleSender {
    pub fn new() -> Self { Self }
    pub async fn send(&mut self, address: SocketAddr, data: Bytes) { SENT.lock().unwrap().push((address, data, false)); }
    pub async fn broadcast(&mut self, addresses: Vec<SocketAddr>, data: Bytes) { for a in addresses { self.send(a, data.clone()).await; } }
    pub async fn lucky_broadcast(&mut self, mut addresses: Vec<SocketAddr>, data: Bytes, nodes: usize) { addresses.truncate(nodes); self.broadcast(addresses, data).await }
}
#[derive(Default)]
pub struct ReliableSender { pub acks: Vec<tokio::sync::oneshot::Sender<Bytes>> }
impl ReliableSender {
    pub fn new() -> Self { Self { acks: Vec::new() } }
    pub async fn send(&mut self, address: SocketAddr, data: Bytes) -> CancelHandler {
        SENT.lock().unwrap().push((address, data, true));
        let (tx, rx) = tokio::sync::oneshot::channel();
        self.acks.push(tx);
        rx
    }
    pub async fn broadcast(&mut self, addresses: Vec<SocketAddr>, data: Bytes) -> Vec<CancelHandler> {
        let mut h = Vec::new(); for a in addresses { h.push(self.send(a, data.clone()).await); } h
    }
    pub async fn lucky_broadcast(&mut self, mut addresses: Vec<SocketAddr>, data: Bytes, nodes: usize) -> Vec<CancelHandler> { addresses.truncate(nodes); self.broadcast(addresses, data).await }
}

//! Fixed-capacity, array-backed association-list models of std::collections::{HashMap, HashSet}.
//! Insertion-ordered, linear search, no heap. Exceeding CAP is a hard error (reported, never silently cut).
use std::borrow::Borrow;
pub const CAP: usize = 4;
fn overflow() -> ! { panic!("kcoll: capacity bound exceeded") }

pub struct HashMap<K, V> { pub items: [Option<(K, V)>; CAP], pub n: usize }
impl<K, V> Default for HashMap<K, V> { fn default() -> Self { Self { items: Default::default(), n: 0 } } }
impl<K: Clone, V: Clone> Clone for HashMap<K, V> {
    // element-wise: `[T; N]::clone` goes through `array::try_from_fn`, after which CBMC no longer sees constant contents
    fn clone(&self) -> Self {
        let mut items: [Option<(K, V)>; CAP] = Default::default();
        let mut i = 0;
        while i < CAP { items[i] = self.items[i].clone(); i += 1; }
        Self { items, n: self.n }
    }
}
impl<K, V> std::fmt::Debug for HashMap<K, V> { fn fmt(&self, f: &mut std::fmt::Formatter) -> std::fmt::Result { write!(f, "HashMap") } }
impl<K: Eq, V> HashMap<K, V> {
    pub fn new() -> Self { Self::default() }
    pub fn len(&self) -> usize { self.n }
    pub fn is_empty(&self) -> bool { self.n == 0 }
    fn pos<Q: ?Sized + Eq>(&self, k: &Q) -> Option<usize> where K: Borrow<Q> {
        let mut i = 0;
        while i < self.n { if let Some((a, _)) = &self.items[i] { if a.borrow() == k { return Some(i); } } i += 1; }
        None
    }
    fn push(&mut self, k: K, v: V) -> usize { if self.n >= CAP { overflow() } self.items[self.n] = Some((k, v)); self.n += 1; self.n - 1 }
    fn take_at(&mut self, i: usize) -> (K, V) {
        let out = self.items[i].take().unwrap();
        let mut j = i;
        while j + 1 < self.n { self.items[j] = self.items[j + 1].take(); j += 1; }
        self.n -= 1;
        out
    }
    pub fn insert(&mut self, k: K, v: V) -> Option<V> {
        match self.pos(&k) {
            Some(i) => { let old = self.items[i].take(); self.items[i] = Some((k, v)); old.map(|x| x.1) }
            None => { self.push(k, v); None }
        }
    }
    pub fn get<Q: ?Sized + Eq>(&self, k: &Q) -> Option<&V> where K: Borrow<Q> { match self.pos(k) { Some(i) => self.items[i].as_ref().map(|x| &x.1), None => None } }
    pub fn get_mut<Q: ?Sized + Eq>(&mut self, k: &Q) -> Option<&mut V> where K: Borrow<Q> { match self.pos(k) { Some(i) => self.items[i].as_mut().map(|x| &mut x.1), None => None } }
    pub fn contains_key<Q: ?Sized + Eq>(&self, k: &Q) -> bool where K: Borrow<Q> { self.pos(k).is_some() }
    pub fn remove<Q: ?Sized + Eq>(&mut self, k: &Q) -> Option<V> where K: Borrow<Q> { match self.pos(k) { Some(i) => Some(self.take_at(i).1), None => None } }
    pub fn entry(&mut self, k: K) -> Entry<'_, K, V> { Entry { map: self, key: k } }
    pub fn retain<F: FnMut(&K, &mut V) -> bool>(&mut self, mut f: F) {
        let mut i = 0;
        while i < self.n {
            let keep = match self.items[i].as_mut() { Some((k, v)) => f(k, v), None => false };
            if keep { i += 1; } else { let _ = self.take_at(i); }
        }
    }
    pub fn keys(&self) -> impl Iterator<Item = &K> { self.items[..self.n].iter().filter_map(|x| x.as_ref().map(|y| &y.0)) }
    pub fn values(&self) -> impl Iterator<Item = &V> { self.items[..self.n].iter().filter_map(|x| x.as_ref().map(|y| &y.1)) }
    pub fn iter(&self) -> impl Iterator<Item = (&K, &V)> { self.items[..self.n].iter().filter_map(|x| x.as_ref().map(|y| (&y.0, &y.1))) }
}
pub struct Entry<'a, K, V> { map: &'a mut HashMap<K, V>, key: K }
impl<'a, K: Eq, V> Entry<'a, K, V> {
    pub fn or_insert_with<F: FnOnce() -> V>(self, f: F) -> &'a mut V {
        let i = match self.map.pos(&self.key) { Some(i) => i, None => self.map.push(self.key, f()) };
        &mut self.map.items[i].as_mut().unwrap().1
    }
    pub fn or_insert(self, v: V) -> &'a mut V { self.or_insert_with(|| v) }
}
impl<K: Eq, V> std::iter::FromIterator<(K, V)> for HashMap<K, V> {
    fn from_iter<I: IntoIterator<Item = (K, V)>>(it: I) -> Self { let mut m = Self::new(); for (k, v) in it { m.insert(k, v); } m }
}
pub struct IntoIter<T> { items: [Option<T>; CAP], i: usize }
impl<T> Iterator for IntoIter<T> { type Item = T; fn next(&mut self) -> Option<T> { while self.i < CAP { let x = self.items[self.i].take(); self.i += 1; if x.is_some() { return x; } } None } }
impl<K, V> IntoIterator for HashMap<K, V> { type Item = (K, V); type IntoIter = IntoIter<(K, V)>; fn into_iter(self) -> Self::IntoIter { IntoIter { items: self.items, i: 0 } } }
pub struct RefIter<'a, K, V> { m: &'a HashMap<K, V>, i: usize }
impl<'a, K, V> Iterator for RefIter<'a, K, V> { type Item = (&'a K, &'a V); fn next(&mut self) -> Option<Self::Item> { while self.i < self.m.n { let x = self.m.items[self.i].as_ref(); self.i += 1; if let Some((k, v)) = x { return Some((k, v)); } } None } }
impl<'a, K, V> IntoIterator for &'a HashMap<K, V> { type Item = (&'a K, &'a V); type IntoIter = RefIter<'a, K, V>; fn into_iter(self) -> Self::IntoIter { RefIter { m: self, i: 0 } } }
impl<K: serde::Serialize, V: serde::Serialize> serde::Serialize for HashMap<K, V> {
    fn serialize<S: serde::Serializer>(&self, s: S) -> Result<S::Ok, S::Error> { s.collect_map(self.into_iter()) }
}
impl<'de, K: serde::Deserialize<'de> + Eq, V: serde::Deserialize<'de>> serde::Deserialize<'de> for HashMap<K, V> {
    fn deserialize<D: serde::Deserializer<'de>>(d: D) -> Result<Self, D::Error> {
        struct Vis<K, V>(std::marker::PhantomData<(K, V)>);
        impl<'de, K: serde::Deserialize<'de> + Eq, V: serde::Deserialize<'de>> serde::de::Visitor<'de> for Vis<K, V> {
            type Value = HashMap<K, V>;
            fn expecting(&self, f: &mut std::fmt::Formatter) -> std::fmt::Result { write!(f, "a map") }
            fn visit_map<A: serde::de::MapAccess<'de>>(self, mut a: A) -> Result<Self::Value, A::Error> {
                let mut m = HashMap::new(); while let Some((k, v)) = a.next_entry()? { m.insert(k, v); } Ok(m)
            }
        }
        d.deserialize_map(Vis(std::marker::PhantomData))
    }
}
pub struct HashSet<T> { pub items: [Option<T>; CAP], pub n: usize }
impl<T> Default for HashSet<T> { fn default() -> Self { Self { items: Default::default(), n: 0 } } }
impl<T: Clone> Clone for HashSet<T> {
    fn clone(&self) -> Self {
        let mut items: [Option<T>; CAP] = Default::default();
        let mut i = 0;
        while i < CAP { items[i] = self.items[i].clone(); i += 1; }
        Self { items, n: self.n }
    }
}
impl<T> std::fmt::Debug for HashSet<T> { fn fmt(&self, f: &mut std::fmt::Formatter) -> std::fmt::Result { write!(f, "HashSet") } }
impl<T: Eq> HashSet<T> {
    pub fn new() -> Self { Self::default() }
    pub fn len(&self) -> usize { self.n }
    pub fn is_empty(&self) -> bool { self.n == 0 }
    fn pos<Q: ?Sized + Eq>(&self, k: &Q) -> Option<usize> where T: Borrow<Q> {
        let mut i = 0; while i < self.n { if let Some(a) = &self.items[i] { if a.borrow() == k { return Some(i); } } i += 1; } None
    }
    pub fn contains<Q: ?Sized + Eq>(&self, k: &Q) -> bool where T: Borrow<Q> { self.pos(k).is_some() }
    pub fn insert(&mut self, v: T) -> bool {
        if self.pos(&v).is_some() { return false; }
        if self.n >= CAP { overflow() }
        self.items[self.n] = Some(v); self.n += 1; true
    }
    pub fn remove<Q: ?Sized + Eq>(&mut self, k: &Q) -> bool where T: Borrow<Q> {
        match self.pos(k) {
            Some(i) => { self.items[i] = None; let mut j = i; while j + 1 < self.n { self.items[j] = self.items[j + 1].take(); j += 1; } self.n -= 1; true }
            None => false,
        }
    }
    pub fn drain(&mut self) -> IntoIter<T> { self.n = 0; IntoIter { items: std::mem::take(&mut self.items), i: 0 } }
    pub fn iter(&self) -> impl Iterator<Item = &T> { self.items[..self.n].iter().filter_map(|x| x.as_ref()) }
}

/// Array-backed ring buffer model of std::collections::VecDeque (capacity DQ_CAP, overflow is a hard error).
pub const DQ_CAP: usize = 8;
pub struct VecDeque<T> { pub items: [Option<T>; DQ_CAP], pub head: usize, pub len: usize }
impl<T> Default for VecDeque<T> { fn default() -> Self { Self { items: Default::default(), head: 0, len: 0 } } }
impl<T> std::fmt::Debug for VecDeque<T> { fn fmt(&self, f: &mut std::fmt::Formatter) -> std::fmt::Result { write!(f, "VecDeque") } }
impl<T> VecDeque<T> {
    pub fn new() -> Self { Self::default() }
    pub fn len(&self) -> usize { self.len }
    pub fn is_empty(&self) -> bool { self.len == 0 }
    pub fn push_back(&mut self, v: T) {
        if self.len >= DQ_CAP { overflow() }
        let i = (self.head + self.len) % DQ_CAP;
        self.items[i] = Some(v);
        self.len += 1;
    }
    pub fn push_front(&mut self, v: T) {
        if self.len >= DQ_CAP { overflow() }
        self.head = (self.head + DQ_CAP - 1) % DQ_CAP;
        let h = self.head;
        self.items[h] = Some(v);
        self.len += 1;
    }
    pub fn pop_front(&mut self) -> Option<T> {
        if self.len == 0 { return None; }
        let h = self.head;
        let v = self.items[h].take();
        self.head = (self.head + 1) % DQ_CAP;
        self.len -= 1;
        v
    }
    pub fn pop_back(&mut self) -> Option<T> {
        if self.len == 0 { return None; }
        let i = (self.head + self.len - 1) % DQ_CAP;
        self.len -= 1;
        self.items[i].take()
    }
    pub fn front(&self) -> Option<&T> { if self.len == 0 { None } else { self.items[self.head].as_ref() } }
    pub fn retain<F: FnMut(&T) -> bool>(&mut self, mut f: F) {
        // rebuild in order
        let mut out: VecDeque<T> = VecDeque::new();
        while let Some(v) = self.pop_front() { if f(&v) { out.push_back(v); } }
        *self = out;
    }
}

//! Verification shim for `bytes::Bytes` (profiles L/R): an owned byte vector. The real type is a reference-counted view
//! with tagged vtable pointers and atomics (pointer-to-integer tricks CBMC cannot follow); the code under verification only
//! builds, clones, measures and reads such buffers, for which a plain vector is observationally equivalent.
#[derive(Clone, Default, PartialEq, Eq, Hash)]
pub struct Bytes(Vec<u8>);
impl Bytes {
    pub fn new() -> Self {
        Bytes(Vec::new())
    }
    pub fn from_static(b: &'static [u8]) -> Self {
        Bytes(b.to_vec())
    }
    pub fn copy_from_slice(b: &[u8]) -> Self {
        Bytes(b.to_vec())
    }
    pub fn len(&self) -> usize {
        self.0.len()
    }
    pub fn is_empty(&self) -> bool {
        self.0.is_empty()
    }
}
impl From<Vec<u8>> for Bytes {
    fn from(v: Vec<u8>) -> Self {
        Bytes(v)
    }
}
impl From<&'static str> for Bytes {
    fn from(s: &'static str) -> Self {
        Bytes(s.as_bytes().to_vec())
    }
}
impl From<&'static [u8]> for Bytes {
    fn from(s: &'static [u8]) -> Self {
        Bytes(s.to_vec())
    }
}
impl From<String> for Bytes {
    fn from(s: String) -> Self {
        Bytes(s.into_bytes())
    }
}
impl std::ops::Deref for Bytes {
    type Target = [u8];
    fn deref(&self) -> &[u8] {
        &self.0
    }
}
impl AsRef<[u8]> for Bytes {
    fn as_ref(&self) -> &[u8] {
        &self.0
    }
}
impl std::fmt::Debug for Bytes {
    fn fmt(&self, f: &mut std::fmt::Formatter) -> std::fmt::Result {
        write!(f, "Bytes({})", self.0.len())
    }
}
impl From<Bytes> for Vec<u8> {
    fn from(b: Bytes) -> Vec<u8> {
        b.0
    }
}

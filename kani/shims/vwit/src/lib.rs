//! Witness channel between the solver and native replay.
//!
//! Every symbolic input of a harness (and every nondeterministic choice of the environment shims) is drawn
//! through this crate. Under Kani (`cfg(kani)`) a draw is `kani::any()` and the drawn value is also stored in
//! the global table `W` at the next index; CBMC's counterexample trace therefore contains one assignment
//! `W[i] = value` per draw, which `lib/runner.py` extracts. In a native build (`cfg(not(kani))`, used for replay)
//! the same draws return the values of `VERIF_WITNESS="v0,v1,..."` in the same order, so the harness re-executes
//! the counterexample against the rustc-compiled real code. `assume` panics natively if the witness violates an
//! assumption (which would mean the witness was extracted wrongly: the replay is then reported as not reproduced).
pub const N: usize = 128;
pub static mut W: [u64; N] = [0; N];
pub static mut NEXT: usize = 0;

#[cfg(kani)]
fn draw() -> u64 {
    let v: u64 = kani::any();
    unsafe {
        let i = NEXT;
        if i >= N {
            panic!("vwit: witness table full");
        }
        W[i] = v;
        NEXT = i + 1;
    }
    v
}
#[cfg(not(kani))]
fn draw() -> u64 {
    use std::sync::OnceLock;
    static SCRIPT: OnceLock<Vec<u64>> = OnceLock::new();
    let s = SCRIPT.get_or_init(|| {
        std::env::var("VERIF_WITNESS")
            .unwrap_or_default()
            .split(',')
            .filter(|x| !x.trim().is_empty())
            .map(|x| x.trim().parse::<u64>().expect("VERIF_WITNESS: not a number"))
            .collect()
    });
    unsafe {
        let i = NEXT;
        NEXT = i + 1;
        s.get(i).copied().unwrap_or(0)
    }
}
/// Start a fresh scenario (native test threads share the statics; harness tests are run one per process).
pub fn reset() {
    unsafe {
        NEXT = 0;
    }
}
pub fn any_u64() -> u64 {
    draw()
}
pub fn any_u32() -> u32 {
    let v = draw();
    assume(v <= u32::MAX as u64);
    v as u32
}
pub fn any_u16() -> u16 {
    let v = draw();
    assume(v <= u16::MAX as u64);
    v as u16
}
pub fn any_u8() -> u8 {
    let v = draw();
    assume(v <= u8::MAX as u64);
    v as u8
}
pub fn any_usize() -> usize {
    draw() as usize
}
pub fn any_bool() -> bool {
    let v = draw();
    assume(v <= 1);
    v == 1
}
pub fn any_u64s<const K: usize>() -> [u64; K] {
    let mut a = [0u64; K];
    let mut i = 0;
    while i < K {
        a[i] = draw();
        i += 1;
    }
    a
}
pub fn any_u32s<const K: usize>() -> [u32; K] {
    let mut a = [0u32; K];
    let mut i = 0;
    while i < K {
        a[i] = any_u32();
        i += 1;
    }
    a
}
/// K arbitrary bytes, 8 per draw.
pub fn any_bytes<const K: usize>() -> [u8; K] {
    let mut a = [0u8; K];
    let mut i = 0;
    while i < K {
        let w = draw().to_le_bytes();
        let mut j = 0;
        while j < 8 && i + j < K {
            a[i + j] = w[j];
            j += 1;
        }
        i += 8;
    }
    a
}
#[cfg(kani)]
pub fn assume(c: bool) {
    kani::assume(c)
}
#[cfg(not(kani))]
pub fn assume(c: bool) {
    if !c {
        panic!("vwit: replayed witness violates a harness assumption");
    }
}
#[cfg(kani)]
#[macro_export]
macro_rules! cover {
    ($($t:tt)*) => { kani::cover!($($t)*) };
}
#[cfg(not(kani))]
#[macro_export]
macro_rules! cover {
    ($($t:tt)*) => {{ let _ = || ($($t)*); }};
}

//! Witness channel between the solver and native replay.
//!
//! Every symbolic input of a harness (and every nondeterministic choice of the environment shims) is drawn
//! through this crate. Under Kani (`cfg(kani)`) a draw is `kani::any()` made inside the out-of-line function
//! `draw`; CBMC's counterexample trace lists every return value of `draw` in program order, which
//! `lib/runner.py` extracts. In a native build (`cfg(not(kani))`, used for replay)
//! the same draws return the values of `VERIF_WITNESS="v0,v1,..."` in the same order, so the harness re-executes
//! the counterexample against the rustc-compiled real code. `assume` panics natively if the witness violates an
//! assumption (which would mean the witness was extracted wrongly: the replay is then reported as not reproduced).
#[cfg(not(kani))]
static mut NEXT: usize = 0;

/// One symbolic draw. Kept out of line and free of any other state: the runner reads the sequence of values returned by
/// this very function from CBMC's counterexample trace (`return_value$$..vwit4draw=..`), in program order.
/// (An earlier version also stored every draw in a global table; writes to that static made CBMC report spurious
/// invalid-pointer failures in unrelated Vec code, so the table is gone.)
#[cfg(kani)]
#[inline(never)]
fn draw() -> u64 {
    let v: u64 = kani::any();
    v
}
#[cfg(not(kani))]
fn draw() -> u64 {
    use std::sync::OnceLock;
    static SCRIPT: OnceLock<Vec<u64>> = OnceLock::new();
    let s = SCRIPT.get_or_init(|| {
        std::env::var("VERIF_WITNESS")
            .unwrap_or_default()
            .split(',')
            .filter(|x| !x.trim().is_empty())
            .map(|x| x.trim().parse::<u64>().expect("VERIF_WITNESS: not a number"))
            .collect()
    });
    unsafe {
        let i = NEXT;
        NEXT = i + 1;
        s.get(i).copied().unwrap_or(0)
    }
}
/// Start a fresh scenario (native only; harness tests are run one per process).
pub fn reset() {
    #[cfg(not(kani))]
    unsafe {
        NEXT = 0;
    }
}
pub fn any_u64() -> u64 {
    draw()
}
pub fn any_u32() -> u32 {
    let v = draw();
    assume(v <= u32::MAX as u64);
    v as u32
}
pub fn any_u16() -> u16 {
    let v = draw();
    assume(v <= u16::MAX as u64);
    v as u16
}
pub fn any_u8() -> u8 {
    let v = draw();
    assume(v <= u8::MAX as u64);
    v as u8
}
pub fn any_usize() -> usize {
    draw() as usize
}
pub fn any_bool() -> bool {
    let v = draw();
    assume(v <= 1);
    v == 1
}
pub fn any_u64s<const K: usize>() -> [u64; K] {
    let mut a = [0u64; K];
    let mut i = 0;
    while i < K {
        a[i] = draw();
        i += 1;
    }
    a
}
pub fn any_u32s<const K: usize>() -> [u32; K] {
    let mut a = [0u32; K];
    let mut i = 0;
    while i < K {
        a[i] = any_u32();
        i += 1;
    }
    a
}
/// K arbitrary bytes, 8 per draw.
pub fn any_bytes<const K: usize>() -> [u8; K] {
    let mut a = [0u8; K];
    let mut i = 0;
    while i < K {
        let w = draw().to_le_bytes();
        let mut j = 0;
        while j < 8 && i + j < K {
            a[i + j] = w[j];
            j += 1;
        }
        i += 8;
    }
    a
}
#[cfg(kani)]
pub fn assume(c: bool) {
    kani::assume(c)
}
#[cfg(not(kani))]
pub fn assume(c: bool) {
    if !c {
        panic!("vwit: replayed witness violates a harness assumption");
    }
}
#[cfg(kani)]
#[macro_export]
macro_rules! cover {
    ($($t:tt)*) => { kani::cover!($($t)*) };
}
#[cfg(not(kani))]
#[macro_export]
macro_rules! cover {
    ($($t:tt)*) => {{ let _ = || ($($t)*); }};
}

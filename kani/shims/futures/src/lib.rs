//! Verification shim for the `futures` facade: everything is the real futures-util, except
//! `stream::FuturesUnordered`, which is replaced by a fixed-capacity array of boxed futures polled in index order
//! (the real one is an intrusive lock-free list woken through per-task wakers: pointer-rich and dependent on wake-ups
//! the sequential environment does not model). Completion order among several ready futures is therefore "lowest index
//! first"; harnesses that care about order permute the insertion order.
pub use futures_util::{sink, task};
pub use futures_util::{FutureExt, SinkExt, StreamExt, TryFutureExt, TryStreamExt};
/// `future::try_join_all` is replaced as well: the real one (futures-util 0.3.34) runs on FuturesOrdered, i.e. on the real
/// intrusive FuturesUnordered. Contract kept: polls every unfinished future on each poll, in index order; completes with
/// Err at the first error seen, with the vector of all outputs (input order) once every future has completed Ok.
pub mod future {
    pub use futures_util::future::*;
    use std::future::Future;
    use std::pin::Pin;
    use std::task::{Context, Poll};
    pub struct TryJoinAll<F, T> {
        futs: Vec<Option<Pin<Box<F>>>>,
        outs: Vec<Option<T>>,
    }
    impl<F, T> Unpin for TryJoinAll<F, T> {}
    pub fn try_join_all<I, F, T, E>(iter: I) -> TryJoinAll<F, T>
    where
        I: IntoIterator<Item = F>,
        F: Future<Output = Result<T, E>>,
    {
        let mut futs = Vec::new();
        let mut outs = Vec::new();
        for f in iter {
            futs.push(Some(Box::pin(f)));
            outs.push(None);
        }
        TryJoinAll { futs, outs }
    }
    impl<F, T, E> Future for TryJoinAll<F, T>
    where
        F: Future<Output = Result<T, E>>,
    {
        type Output = Result<Vec<T>, E>;
        fn poll(mut self: Pin<&mut Self>, cx: &mut Context<'_>) -> Poll<Self::Output> {
            let me = &mut *self;
            let mut all = true;
            let mut i = 0;
            while i < me.futs.len() {
                let done = match me.futs[i].as_mut() {
                    Some(f) => match f.as_mut().poll(cx) {
                        Poll::Ready(Ok(v)) => {
                            me.outs[i] = Some(v);
                            true
                        }
                        Poll::Ready(Err(e)) => return Poll::Ready(Err(e)),
                        Poll::Pending => {
                            all = false;
                            false
                        }
                    },
                    None => false,
                };
                if done {
                    me.futs[i] = None;
                }
                i += 1;
            }
            if !all {
                return Poll::Pending;
            }
            let mut out = Vec::new();
            let mut i = 0;
            while i < me.outs.len() {
                if let Some(v) = me.outs[i].take() {
                    out.push(v);
                }
                i += 1;
            }
            Poll::Ready(Ok(out))
        }
    }
}
pub mod stream {
    pub use futures_util::stream::*;
    pub mod futures_unordered {
        use futures_core::Stream;
        use std::future::Future;
        use std::pin::Pin;
        use std::task::{Context, Poll};
        pub const FU_CAP: usize = 4;
        /// The slots are TYPE-ERASED (`dyn Future`): the container's layout then does not mention `F`, so a local
        /// `FuturesUnordered<{async block containing select!}>` that is never filled (QuorumWaiter's `pending`) does not drag
        /// that coroutine's nested union type into every byte-level access of the enclosing frame.
        pub struct FuturesUnordered<F: Future> {
            pub slots: [Option<Pin<Box<dyn Future<Output = F::Output> + Send>>>; FU_CAP],
            pub n: usize,
            _f: std::marker::PhantomData<fn() -> F>,
        }
        impl<F: Future> Unpin for FuturesUnordered<F> {}
        impl<F: Future> Default for FuturesUnordered<F> {
            fn default() -> Self {
                Self { slots: [None, None, None, None], n: 0, _f: std::marker::PhantomData }
            }
        }
        impl<F: Future + Send + 'static> FuturesUnordered<F> {
            pub fn new() -> Self {
                Self::default()
            }
            pub fn len(&self) -> usize {
                self.n
            }
            pub fn is_empty(&self) -> bool {
                self.n == 0
            }
            /// like the real one, `push` takes `&self` (sequential model: plain interior mutation)
            pub fn push(&self, f: F) {
                #[allow(invalid_reference_casting)]
                let me = unsafe { &mut *(self as *const Self as *mut Self) };
                me.push_mut(f)
            }
            pub fn push_mut(&mut self, f: F) {
                let mut i = 0;
                while i < FU_CAP {
                    if self.slots[i].is_none() {
                        self.slots[i] = Some(Box::pin(f));
                        self.n += 1;
                        return;
                    }
                    i += 1;
                }
                panic!("futures shim: FuturesUnordered capacity bound exceeded");
            }
        }
        impl<F: Future> Stream for FuturesUnordered<F> {
            type Item = F::Output;
            fn poll_next(mut self: Pin<&mut Self>, cx: &mut Context<'_>) -> Poll<Option<F::Output>> {
                if self.n == 0 {
                    return Poll::Ready(None);
                }
                let mut i = 0;
                while i < FU_CAP {
                    let ready = match self.slots[i].as_mut() {
                        Some(f) => match f.as_mut().poll(cx) {
                            Poll::Ready(v) => Some(v),
                            Poll::Pending => None,
                        },
                        None => None,
                    };
                    if let Some(v) = ready {
                        self.slots[i] = None;
                        self.n -= 1;
                        return Poll::Ready(Some(v));
                    }
                    i += 1;
                }
                Poll::Pending
            }
        }
        impl<F: Future + Send + 'static> std::iter::FromIterator<F> for FuturesUnordered<F> {
            fn from_iter<I: IntoIterator<Item = F>>(it: I) -> Self {
                let mut s = Self::default();
                for f in it {
                    s.push_mut(f);
                }
                s
            }
        }
    }
    pub use self::futures_unordered::FuturesUnordered;
}

#[macro_export]
macro_rules! select {
    (@parse {$($acc:tt)*} $p:pat = $f:expr => $h:block , $($r:tt)*) => { $crate::select!(@parse {$($acc)* (($p) ($f) ($h))} $($r)*) };
    (@parse {$($acc:tt)*} $p:pat = $f:expr => $h:block $($r:tt)*) => { $crate::select!(@parse {$($acc)* (($p) ($f) ($h))} $($r)*) };
    (@parse {$($acc:tt)*} $p:pat = $f:expr => $h:expr , $($r:tt)*) => { $crate::select!(@parse {$($acc)* (($p) ($f) ($h))} $($r)*) };
    (@parse {$($acc:tt)*} $p:pat = $f:expr => $h:expr) => { $crate::select!(@parse {$($acc)* (($p) ($f) ($h))}) };
    (@parse {$($acc:tt)*}) => { $crate::select!(@go $($acc)*) };
    (@go (($p0:pat) ($f0:expr) ($h0:expr))) => {{
        #[allow(non_camel_case_types, dead_code)] enum __Out<T0> { _0(T0), Disabled }
        let __out = {
            let mut __f0 = ::std::pin::pin!($f0); let mut __d0 = false;
            let __start = $crate::__choose(1);
            ::std::future::poll_fn(|__cx| {
                let mut __pending = false;
                let mut __k = 0usize; while __k < 1 {
                    let __b = (__start + __k) % 1; __k += 1;
                    if __b == 0 && !__d0 { match ::std::future::Future::poll(__f0.as_mut(), __cx) {
                        ::std::task::Poll::Ready(__v) => { #[allow(unused_variables, unreachable_patterns)] let __m = match &__v { $p0 => true, _ => false };
                            if __m { return ::std::task::Poll::Ready(__Out::_0(__v)); } else { __d0 = true; } }
                        ::std::task::Poll::Pending => { __pending = true; } } }
                }
                if __pending { ::std::task::Poll::Pending } else { ::std::task::Poll::Ready(__Out::Disabled) }
            }).await
        };
        #[allow(unreachable_patterns)] match __out {
            __Out::_0($p0) => $h0,
            _ => ::core::panic!("select!: all branches disabled"),
        }
    }};
    (@go (($p0:pat) ($f0:expr) ($h0:expr)) (($p1:pat) ($f1:expr) ($h1:expr))) => {{
        #[allow(non_camel_case_types, dead_code)] enum __Out<T0,T1> { _0(T0), _1(T1), Disabled }
        let __out = {
            let mut __f0 = ::std::pin::pin!($f0); let mut __d0 = false;
            let mut __f1 = ::std::pin::pin!($f1); let mut __d1 = false;
            let __start = $crate::__choose(2);
            ::std::future::poll_fn(|__cx| {
                let mut __pending = false;
                let mut __k = 0usize; while __k < 2 {
                    let __b = (__start + __k) % 2; __k += 1;
                    if __b == 0 && !__d0 { match ::std::future::Future::poll(__f0.as_mut(), __cx) {
                        ::std::task::Poll::Ready(__v) => { #[allow(unused_variables, unreachable_patterns)] let __m = match &__v { $p0 => true, _ => false };
                            if __m { return ::std::task::Poll::Ready(__Out::_0(__v)); } else { __d0 = true; } }
                        ::std::task::Poll::Pending => { __pending = true; } } }
                    if __b == 1 && !__d1 { match ::std::future::Future::poll(__f1.as_mut(), __cx) {
                        ::std::task::Poll::Ready(__v) => { #[allow(unused_variables, unreachable_patterns)] let __m = match &__v { $p1 => true, _ => false };
                            if __m { return ::std::task::Poll::Ready(__Out::_1(__v)); } else { __d1 = true; } }
                        ::std::task::Poll::Pending => { __pending = true; } } }
                }
                if __pending { ::std::task::Poll::Pending } else { ::std::task::Poll::Ready(__Out::Disabled) }
            }).await
        };
        #[allow(unreachable_patterns)] match __out {
            __Out::_0($p0) => $h0,
            __Out::_1($p1) => $h1,
            _ => ::core::panic!("select!: all branches disabled"),
        }
    }};
    (@go (($p0:pat) ($f0:expr) ($h0:expr)) (($p1:pat) ($f1:expr) ($h1:expr)) (($p2:pat) ($f2:expr) ($h2:expr))) => {{
        #[allow(non_camel_case_types, dead_code)] enum __Out<T0,T1,T2> { _0(T0), _1(T1), _2(T2), Disabled }
        let __out = {
            let mut __f0 = ::std::pin::pin!($f0); let mut __d0 = false;
            let mut __f1 = ::std::pin::pin!($f1); let mut __d1 = false;
            let mut __f2 = ::std::pin::pin!($f2); let mut __d2 = false;
            let __start = $crate::__choose(3);
            ::std::future::poll_fn(|__cx| {
                let mut __pending = false;
                let mut __k = 0usize; while __k < 3 {
                    let __b = (__start + __k) % 3; __k += 1;
                    if __b == 0 && !__d0 { match ::std::future::Future::poll(__f0.as_mut(), __cx) {
                        ::std::task::Poll::Ready(__v) => { #[allow(unused_variables, unreachable_patterns)] let __m = match &__v { $p0 => true, _ => false };
                            if __m { return ::std::task::Poll::Ready(__Out::_0(__v)); } else { __d0 = true; } }
                        ::std::task::Poll::Pending => { __pending = true; } } }
                    if __b == 1 && !__d1 { match ::std::future::Future::poll(__f1.as_mut(), __cx) {
                        ::std::task::Poll::Ready(__v) => { #[allow(unused_variables, unreachable_patterns)] let __m = match &__v { $p1 => true, _ => false };
                            if __m { return ::std::task::Poll::Ready(__Out::_1(__v)); } else { __d1 = true; } }
                        ::std::task::Poll::Pending => { __pending = true; } } }
                    if __b == 2 && !__d2 { match ::std::future::Future::poll(__f2.as_mut(), __cx) {
                        ::std::task::Poll::Ready(__v) => { #[allow(unused_variables, unreachable_patterns)] let __m = match &__v { $p2 => true, _ => false };
                            if __m { return ::std::task::Poll::Ready(__Out::_2(__v)); } else { __d2 = true; } }
                        ::std::task::Poll::Pending => { __pending = true; } } }
                }
                if __pending { ::std::task::Poll::Pending } else { ::std::task::Poll::Ready(__Out::Disabled) }
            }).await
        };
        #[allow(unreachable_patterns)] match __out {
            __Out::_0($p0) => $h0,
            __Out::_1($p1) => $h1,
            __Out::_2($p2) => $h2,
            _ => ::core::panic!("select!: all branches disabled"),
        }
    }};
    (@go (($p0:pat) ($f0:expr) ($h0:expr)) (($p1:pat) ($f1:expr) ($h1:expr)) (($p2:pat) ($f2:expr) ($h2:expr)) (($p3:pat) ($f3:expr) ($h3:expr))) => {{
        #[allow(non_camel_case_types, dead_code)] enum __Out<T0,T1,T2,T3> { _0(T0), _1(T1), _2(T2), _3(T3), Disabled }
        let __out = {
            let mut __f0 = ::std::pin::pin!($f0); let mut __d0 = false;
            let mut __f1 = ::std::pin::pin!($f1); let mut __d1 = false;
            let mut __f2 = ::std::pin::pin!($f2); let mut __d2 = false;
            let mut __f3 = ::std::pin::pin!($f3); let mut __d3 = false;
            let __start = $crate::__choose(4);
            ::std::future::poll_fn(|__cx| {
                let mut __pending = false;
                let mut __k = 0usize; while __k < 4 {
                    let __b = (__start + __k) % 4; __k += 1;
                    if __b == 0 && !__d0 { match ::std::future::Future::poll(__f0.as_mut(), __cx) {
                        ::std::task::Poll::Ready(__v) => { #[allow(unused_variables, unreachable_patterns)] let __m = match &__v { $p0 => true, _ => false };
                            if __m { return ::std::task::Poll::Ready(__Out::_0(__v)); } else { __d0 = true; } }
                        ::std::task::Poll::Pending => { __pending = true; } } }
                    if __b == 1 && !__d1 { match ::std::future::Future::poll(__f1.as_mut(), __cx) {
                        ::std::task::Poll::Ready(__v) => { #[allow(unused_variables, unreachable_patterns)] let __m = match &__v { $p1 => true, _ => false };
                            if __m { return ::std::task::Poll::Ready(__Out::_1(__v)); } else { __d1 = true; } }
                        ::std::task::Poll::Pending => { __pending = true; } } }
                    if __b == 2 && !__d2 { match ::std::future::Future::poll(__f2.as_mut(), __cx) {
                        ::std::task::Poll::Ready(__v) => { #[allow(unused_variables, unreachable_patterns)] let __m = match &__v { $p2 => true, _ => false };
                            if __m { return ::std::task::Poll::Ready(__Out::_2(__v)); } else { __d2 = true; } }
                        ::std::task::Poll::Pending => { __pending = true; } } }
                    if __b == 3 && !__d3 { match ::std::future::Future::poll(__f3.as_mut(), __cx) {
                        ::std::task::Poll::Ready(__v) => { #[allow(unused_variables, unreachable_patterns)] let __m = match &__v { $p3 => true, _ => false };
                            if __m { return ::std::task::Poll::Ready(__Out::_3(__v)); } else { __d3 = true; } }
                        ::std::task::Poll::Pending => { __pending = true; } } }
                }
                if __pending { ::std::task::Poll::Pending } else { ::std::task::Poll::Ready(__Out::Disabled) }
            }).await
        };
        #[allow(unreachable_patterns)] match __out {
            __Out::_0($p0) => $h0,
            __Out::_1($p1) => $h1,
            __Out::_2($p2) => $h2,
            __Out::_3($p3) => $h3,
            _ => ::core::panic!("select!: all branches disabled"),
        }
    }};
    ($($t:tt)*) => { $crate::select!(@parse {} $($t)*) };
}

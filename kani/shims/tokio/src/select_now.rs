/// Synchronous `select!` for run loops lowered by the overlay (kani/overlay.py, LOWER_LOOPS): every branch future is polled
/// exactly once, starting from a harness-chosen index; the first ready branch whose value matches its pattern runs its
/// handler; if no branch is ready (or every ready one is disabled) the enclosing `loop` is left with `break`, i.e. the
/// lowered run function returns when the task would go to sleep.
#[macro_export]
macro_rules! select_now {
    (@parse {$($acc:tt)*} $p:pat = $f:expr => $h:block , $($r:tt)*) => { $crate::select_now!(@parse {$($acc)* (($p) ($f) ($h))} $($r)*) };
    (@parse {$($acc:tt)*} $p:pat = $f:expr => $h:block $($r:tt)*) => { $crate::select_now!(@parse {$($acc)* (($p) ($f) ($h))} $($r)*) };
    (@parse {$($acc:tt)*} $p:pat = $f:expr => $h:expr , $($r:tt)*) => { $crate::select_now!(@parse {$($acc)* (($p) ($f) ($h))} $($r)*) };
    (@parse {$($acc:tt)*} $p:pat = $f:expr => $h:expr) => { $crate::select_now!(@parse {$($acc)* (($p) ($f) ($h))}) };
    (@parse {$($acc:tt)*}) => { $crate::select_now!(@go $($acc)*) };
    (@go (($p0:pat) ($f0:expr) ($h0:expr))) => {{
        #[allow(non_camel_case_types, dead_code)] enum __Out<T0> { _0(T0), Idle }
        let __out = {
            let __w = $crate::noop_waker(); let mut __cx = ::std::task::Context::from_waker(&__w);
            let mut __f0 = ::std::pin::pin!($f0);
            let __start = $crate::__choose(1);
            let mut __res = __Out::Idle; let mut __done = false;
            let mut __k = 0usize; while __k < 1 {
                let __b = (__start + __k) % 1; __k += 1;
                if !__done && __b == 0 { if let ::std::task::Poll::Ready(__v) = ::std::future::Future::poll(__f0.as_mut(), &mut __cx) {
                    #[allow(unused_variables, unreachable_patterns)] let __m = match &__v { $p0 => true, _ => false };
                    if __m { __res = __Out::_0(__v); __done = true; } } }
            }
            __res
        };
        #[allow(unreachable_patterns)] match __out {
            __Out::_0($p0) => $h0,
            _ => break,
        }
    }};
    (@go (($p0:pat) ($f0:expr) ($h0:expr)) (($p1:pat) ($f1:expr) ($h1:expr))) => {{
        #[allow(non_camel_case_types, dead_code)] enum __Out<T0,T1> { _0(T0), _1(T1), Idle }
        let __out = {
            let __w = $crate::noop_waker(); let mut __cx = ::std::task::Context::from_waker(&__w);
            let mut __f0 = ::std::pin::pin!($f0);
            let mut __f1 = ::std::pin::pin!($f1);
            let __start = $crate::__choose(2);
            let mut __res = __Out::Idle; let mut __done = false;
            let mut __k = 0usize; while __k < 2 {
                let __b = (__start + __k) % 2; __k += 1;
                if !__done && __b == 0 { if let ::std::task::Poll::Ready(__v) = ::std::future::Future::poll(__f0.as_mut(), &mut __cx) {
                    #[allow(unused_variables, unreachable_patterns)] let __m = match &__v { $p0 => true, _ => false };
                    if __m { __res = __Out::_0(__v); __done = true; } } }
                if !__done && __b == 1 { if let ::std::task::Poll::Ready(__v) = ::std::future::Future::poll(__f1.as_mut(), &mut __cx) {
                    #[allow(unused_variables, unreachable_patterns)] let __m = match &__v { $p1 => true, _ => false };
                    if __m { __res = __Out::_1(__v); __done = true; } } }
            }
            __res
        };
        #[allow(unreachable_patterns)] match __out {
            __Out::_0($p0) => $h0,
            __Out::_1($p1) => $h1,
            _ => break,
        }
    }};
    (@go (($p0:pat) ($f0:expr) ($h0:expr)) (($p1:pat) ($f1:expr) ($h1:expr)) (($p2:pat) ($f2:expr) ($h2:expr))) => {{
        #[allow(non_camel_case_types, dead_code)] enum __Out<T0,T1,T2> { _0(T0), _1(T1), _2(T2), Idle }
        let __out = {
            let __w = $crate::noop_waker(); let mut __cx = ::std::task::Context::from_waker(&__w);
            let mut __f0 = ::std::pin::pin!($f0);
            let mut __f1 = ::std::pin::pin!($f1);
            let mut __f2 = ::std::pin::pin!($f2);
            let __start = $crate::__choose(3);
            let mut __res = __Out::Idle; let mut __done = false;
            let mut __k = 0usize; while __k < 3 {
                let __b = (__start + __k) % 3; __k += 1;
                if !__done && __b == 0 { if let ::std::task::Poll::Ready(__v) = ::std::future::Future::poll(__f0.as_mut(), &mut __cx) {
                    #[allow(unused_variables, unreachable_patterns)] let __m = match &__v { $p0 => true, _ => false };
                    if __m { __res = __Out::_0(__v); __done = true; } } }
                if !__done && __b == 1 { if let ::std::task::Poll::Ready(__v) = ::std::future::Future::poll(__f1.as_mut(), &mut __cx) {
                    #[allow(unused_variables, unreachable_patterns)] let __m = match &__v { $p1 => true, _ => false };
                    if __m { __res = __Out::_1(__v); __done = true; } } }
                if !__done && __b == 2 { if let ::std::task::Poll::Ready(__v) = ::std::future::Future::poll(__f2.as_mut(), &mut __cx) {
                    #[allow(unused_variables, unreachable_patterns)] let __m = match &__v { $p2 => true, _ => false };
                    if __m { __res = __Out::_2(__v); __done = true; } } }
            }
            __res
        };
        #[allow(unreachable_patterns)] match __out {
            __Out::_0($p0) => $h0,
            __Out::_1($p1) => $h1,
            __Out::_2($p2) => $h2,
            _ => break,
        }
    }};
    ($($t:tt)*) => { $crate::select_now!(@parse {} $($t)*) };
}

//! Verification shim for tokio: sequential, always-ready primitives.
pub mod sync {
    pub mod mpsc {
        use std::collections::VecDeque;
        use std::sync::Arc;
        use crate::SeqCell as Mutex;
        pub mod error {
            #[derive(Debug)]
            pub struct SendError<T>(pub T);
            impl<T> std::fmt::Display for SendError<T> {
                fn fmt(&self, f: &mut std::fmt::Formatter) -> std::fmt::Result {
                    write!(f, "channel closed")
                }
            }
        }
        struct Inner<T> {
            q: VecDeque<T>,
            rx_alive: bool,
            senders: usize,
        }
        pub struct Sender<T>(Arc<Mutex<Inner<T>>>);
        pub struct Receiver<T>(Arc<Mutex<Inner<T>>>);
        impl<T> std::fmt::Debug for Sender<T> {
            fn fmt(&self, f: &mut std::fmt::Formatter) -> std::fmt::Result { write!(f, "Sender") }
        }
        impl<T> std::fmt::Debug for Receiver<T> {
            fn fmt(&self, f: &mut std::fmt::Formatter) -> std::fmt::Result { write!(f, "Receiver") }
        }
        pub fn channel<T>(_cap: usize) -> (Sender<T>, Receiver<T>) {
            let i = Arc::new(Mutex::new(Inner { q: VecDeque::new(), rx_alive: true, senders: 1 }));
            (Sender(i.clone()), Receiver(i))
        }
        impl<T> Clone for Sender<T> {
            fn clone(&self) -> Self {
                self.0.lock().unwrap().senders += 1;
                Sender(self.0.clone())
            }
        }
        impl<T> Drop for Sender<T> {
            fn drop(&mut self) { self.0.lock().unwrap().senders -= 1; }
        }
        impl<T> Drop for Receiver<T> {
            fn drop(&mut self) { self.0.lock().unwrap().rx_alive = false; }
        }
        impl<T> Sender<T> {
            pub async fn send(&self, v: T) -> Result<(), error::SendError<T>> {
                let g = self.0.lock().unwrap();
                if !g.rx_alive { return Err(error::SendError(v)); }
                g.q.push_back(v);
                Ok(())
            }
            pub fn is_closed(&self) -> bool { !self.0.lock().unwrap().rx_alive }
        }
        impl<T> Receiver<T> {
            /// Shim: never pends. Returns None when the queue is empty.
            pub async fn recv(&mut self) -> Option<T> { self.0.lock().unwrap().q.pop_front() }
            pub fn try_pop(&mut self) -> Option<T> { self.0.lock().unwrap().q.pop_front() }
            pub fn len(&self) -> usize { self.0.lock().unwrap().q.len() }
        }
    }
    pub mod oneshot {
        use std::future::Future;
        use std::pin::Pin;
        use std::sync::Arc;
        use crate::SeqCell as Mutex;
        use std::task::{Context, Poll};
        pub mod error {
            #[derive(Debug)]
            pub struct RecvError(pub ());
            impl std::fmt::Display for RecvError {
                fn fmt(&self, f: &mut std::fmt::Formatter) -> std::fmt::Result { write!(f, "channel closed") }
            }
            impl std::error::Error for RecvError {}
        }
        struct Inner<T> { v: Option<T>, rx_alive: bool, tx_alive: bool }
        pub struct Sender<T>(Arc<Mutex<Inner<T>>>);
        pub struct Receiver<T>(Arc<Mutex<Inner<T>>>);
        impl<T> std::fmt::Debug for Sender<T> {
            fn fmt(&self, f: &mut std::fmt::Formatter) -> std::fmt::Result { write!(f, "oneshot::Sender") }
        }
        impl<T> std::fmt::Debug for Receiver<T> {
            fn fmt(&self, f: &mut std::fmt::Formatter) -> std::fmt::Result { write!(f, "oneshot::Receiver") }
        }
        pub fn channel<T>() -> (Sender<T>, Receiver<T>) {
            let i = Arc::new(Mutex::new(Inner { v: None, rx_alive: true, tx_alive: true }));
            (Sender(i.clone()), Receiver(i))
        }
        impl<T> Sender<T> {
            pub fn send(self, v: T) -> Result<(), T> {
                let g = self.0.lock().unwrap();
                if !g.rx_alive { return Err(v); }
                g.v = Some(v);
                Ok(())
            }
            pub fn is_closed(&self) -> bool { !self.0.lock().unwrap().rx_alive }
        }
        impl<T> Drop for Sender<T> { fn drop(&mut self) { self.0.lock().unwrap().tx_alive = false; } }
        impl<T> Drop for Receiver<T> { fn drop(&mut self) { self.0.lock().unwrap().rx_alive = false; } }
        impl<T> Future for Receiver<T> {
            type Output = Result<T, error::RecvError>;
            fn poll(self: Pin<&mut Self>, _cx: &mut Context<'_>) -> Poll<Self::Output> {
                let g = self.0.lock().unwrap();
                match g.v.take() {
                    Some(v) => Poll::Ready(Ok(v)),
                    None => if g.tx_alive { Poll::Pending } else { Poll::Ready(Err(error::RecvError(()))) },
                }
            }
        }
    }
}
pub mod time {
    use std::future::Future;
    use std::pin::Pin;
    use std::task::{Context, Poll};
    pub use std::time::Duration;
    #[derive(Clone, Copy, Debug, PartialEq, Eq, PartialOrd, Ord)]
    pub struct Instant(pub u64);
    impl Instant { pub fn now() -> Self { Instant(0) } }
    impl std::ops::Add<Duration> for Instant {
        type Output = Instant;
        fn add(self, d: Duration) -> Instant { Instant(self.0.wrapping_add(d.as_millis() as u64)) }
    }
    #[derive(Debug)]
    pub struct Sleep { pub resets: u64, pub deadline: Instant }
    pub fn sleep(d: Duration) -> Sleep { Sleep { resets: 0, deadline: Instant::now() + d } }
    impl Sleep {
        pub fn reset(mut self: Pin<&mut Self>, deadline: Instant) { self.resets += 1; self.deadline = deadline; }
    }
    impl Future for Sleep {
        type Output = ();
        fn poll(self: Pin<&mut Self>, _cx: &mut Context<'_>) -> Poll<()> { Poll::Pending }
    }
}
pub mod task {
    pub struct JoinHandle<T>(pub std::marker::PhantomData<T>);
    pub async fn yield_now() {}
}
pub fn spawn<F>(f: F) -> task::JoinHandle<F::Output>
where F: std::future::Future + Send + 'static, F::Output: Send + 'static {
    drop(f);
    task::JoinHandle(std::marker::PhantomData)
}
#[macro_export]
macro_rules! select {
    (@parse {$($acc:tt)*} $p:pat = $f:expr => $h:block , $($r:tt)*) => { $crate::select!(@parse {$($acc)* (($p) ($f) ($h))} $($r)*) };
    (@parse {$($acc:tt)*} $p:pat = $f:expr => $h:block $($r:tt)*) => { $crate::select!(@parse {$($acc)* (($p) ($f) ($h))} $($r)*) };
    (@parse {$($acc:tt)*} $p:pat = $f:expr => $h:expr , $($r:tt)*) => { $crate::select!(@parse {$($acc)* (($p) ($f) ($h))} $($r)*) };
    (@parse {$($acc:tt)*} $p:pat = $f:expr => $h:expr) => { $crate::select!(@parse {$($acc)* (($p) ($f) ($h))}) };
    (@parse {$($acc:tt)*}) => { $crate::select!(@go $($acc)*) };
    (@go (($p0:pat) ($f0:expr) ($h0:expr))) => {{
        #[allow(non_camel_case_types, dead_code)] enum __Out<T0> { _0(T0), Disabled }
        let __out = {
            let mut __f0 = ::std::boxed::Box::pin($f0); let mut __d0 = false;
            let __start = $crate::__choose(1);
            ::std::future::poll_fn(|__cx| {
                let mut __pending = false;
                let mut __k = 0usize; while __k < 1 {
                    let __b = (__start + __k) % 1; __k += 1;
                    if __b == 0 && !__d0 { match ::std::future::Future::poll(__f0.as_mut(), __cx) {
                        ::std::task::Poll::Ready(__v) => { #[allow(unused_variables, unreachable_patterns)] let __m = match &__v { $p0 => true, _ => false };
                            if __m { return ::std::task::Poll::Ready(__Out::_0(__v)); } else { __d0 = true; } }
                        ::std::task::Poll::Pending => { __pending = true; } } }
                }
                if __pending { ::std::task::Poll::Pending } else { ::std::task::Poll::Ready(__Out::Disabled) }
            }).await
        };
        #[allow(unreachable_patterns)] match __out {
            __Out::_0($p0) => $h0,
            _ => ::core::panic!("select!: all branches disabled"),
        }
    }};
    (@go (($p0:pat) ($f0:expr) ($h0:expr)) (($p1:pat) ($f1:expr) ($h1:expr))) => {{
        #[allow(non_camel_case_types, dead_code)] enum __Out<T0,T1> { _0(T0), _1(T1), Disabled }
        let __out = {
            let mut __f0 = ::std::boxed::Box::pin($f0); let mut __d0 = false;
            let mut __f1 = ::std::boxed::Box::pin($f1); let mut __d1 = false;
            let __start = $crate::__choose(2);
            ::std::future::poll_fn(|__cx| {
                let mut __pending = false;
                let mut __k = 0usize; while __k < 2 {
                    let __b = (__start + __k) % 2; __k += 1;
                    if __b == 0 && !__d0 { match ::std::future::Future::poll(__f0.as_mut(), __cx) {
                        ::std::task::Poll::Ready(__v) => { #[allow(unused_variables, unreachable_patterns)] let __m = match &__v { $p0 => true, _ => false };
                            if __m { return ::std::task::Poll::Ready(__Out::_0(__v)); } else { __d0 = true; } }
                        ::std::task::Poll::Pending => { __pending = true; } } }
                    if __b == 1 && !__d1 { match ::std::future::Future::poll(__f1.as_mut(), __cx) {
                        ::std::task::Poll::Ready(__v) => { #[allow(unused_variables, unreachable_patterns)] let __m = match &__v { $p1 => true, _ => false };
                            if __m { return ::std::task::Poll::Ready(__Out::_1(__v)); } else { __d1 = true; } }
                        ::std::task::Poll::Pending => { __pending = true; } } }
                }
                if __pending { ::std::task::Poll::Pending } else { ::std::task::Poll::Ready(__Out::Disabled) }
            }).await
        };
        #[allow(unreachable_patterns)] match __out {
            __Out::_0($p0) => $h0,
            __Out::_1($p1) => $h1,
            _ => ::core::panic!("select!: all branches disabled"),
        }
    }};
    (@go (($p0:pat) ($f0:expr) ($h0:expr)) (($p1:pat) ($f1:expr) ($h1:expr)) (($p2:pat) ($f2:expr) ($h2:expr))) => {{
        #[allow(non_camel_case_types, dead_code)] enum __Out<T0,T1,T2> { _0(T0), _1(T1), _2(T2), Disabled }
        let __out = {
            let mut __f0 = ::std::boxed::Box::pin($f0); let mut __d0 = false;
            let mut __f1 = ::std::boxed::Box::pin($f1); let mut __d1 = false;
            let mut __f2 = ::std::boxed::Box::pin($f2); let mut __d2 = false;
            let __start = $crate::__choose(3);
            ::std::future::poll_fn(|__cx| {
                let mut __pending = false;
                let mut __k = 0usize; while __k < 3 {
                    let __b = (__start + __k) % 3; __k += 1;
                    if __b == 0 && !__d0 { match ::std::future::Future::poll(__f0.as_mut(), __cx) {
                        ::std::task::Poll::Ready(__v) => { #[allow(unused_variables, unreachable_patterns)] let __m = match &__v { $p0 => true, _ => false };
                            if __m { return ::std::task::Poll::Ready(__Out::_0(__v)); } else { __d0 = true; } }
                        ::std::task::Poll::Pending => { __pending = true; } } }
                    if __b == 1 && !__d1 { match ::std::future::Future::poll(__f1.as_mut(), __cx) {
                        ::std::task::Poll::Ready(__v) => { #[allow(unused_variables, unreachable_patterns)] let __m = match &__v { $p1 => true, _ => false };
                            if __m { return ::std::task::Poll::Ready(__Out::_1(__v)); } else { __d1 = true; } }
                        ::std::task::Poll::Pending => { __pending = true; } } }
                    if __b == 2 && !__d2 { match ::std::future::Future::poll(__f2.as_mut(), __cx) {
                        ::std::task::Poll::Ready(__v) => { #[allow(unused_variables, unreachable_patterns)] let __m = match &__v { $p2 => true, _ => false };
                            if __m { return ::std::task::Poll::Ready(__Out::_2(__v)); } else { __d2 = true; } }
                        ::std::task::Poll::Pending => { __pending = true; } } }
                }
                if __pending { ::std::task::Poll::Pending } else { ::std::task::Poll::Ready(__Out::Disabled) }
            }).await
        };
        #[allow(unreachable_patterns)] match __out {
            __Out::_0($p0) => $h0,
            __Out::_1($p1) => $h1,
            __Out::_2($p2) => $h2,
            _ => ::core::panic!("select!: all branches disabled"),
        }
    }};
    (@go (($p0:pat) ($f0:expr) ($h0:expr)) (($p1:pat) ($f1:expr) ($h1:expr)) (($p2:pat) ($f2:expr) ($h2:expr)) (($p3:pat) ($f3:expr) ($h3:expr))) => {{
        #[allow(non_camel_case_types, dead_code)] enum __Out<T0,T1,T2,T3> { _0(T0), _1(T1), _2(T2), _3(T3), Disabled }
        let __out = {
            let mut __f0 = ::std::boxed::Box::pin($f0); let mut __d0 = false;
            let mut __f1 = ::std::boxed::Box::pin($f1); let mut __d1 = false;
            let mut __f2 = ::std::boxed::Box::pin($f2); let mut __d2 = false;
            let mut __f3 = ::std::boxed::Box::pin($f3); let mut __d3 = false;
            let __start = $crate::__choose(4);
            ::std::future::poll_fn(|__cx| {
                let mut __pending = false;
                let mut __k = 0usize; while __k < 4 {
                    let __b = (__start + __k) % 4; __k += 1;
                    if __b == 0 && !__d0 { match ::std::future::Future::poll(__f0.as_mut(), __cx) {
                        ::std::task::Poll::Ready(__v) => { #[allow(unused_variables, unreachable_patterns)] let __m = match &__v { $p0 => true, _ => false };
                            if __m { return ::std::task::Poll::Ready(__Out::_0(__v)); } else { __d0 = true; } }
                        ::std::task::Poll::Pending => { __pending = true; } } }
                    if __b == 1 && !__d1 { match ::std::future::Future::poll(__f1.as_mut(), __cx) {
                        ::std::task::Poll::Ready(__v) => { #[allow(unused_variables, unreachable_patterns)] let __m = match &__v { $p1 => true, _ => false };
                            if __m { return ::std::task::Poll::Ready(__Out::_1(__v)); } else { __d1 = true; } }
                        ::std::task::Poll::Pending => { __pending = true; } } }
                    if __b == 2 && !__d2 { match ::std::future::Future::poll(__f2.as_mut(), __cx) {
                        ::std::task::Poll::Ready(__v) => { #[allow(unused_variables, unreachable_patterns)] let __m = match &__v { $p2 => true, _ => false };
                            if __m { return ::std::task::Poll::Ready(__Out::_2(__v)); } else { __d2 = true; } }
                        ::std::task::Poll::Pending => { __pending = true; } } }
                    if __b == 3 && !__d3 { match ::std::future::Future::poll(__f3.as_mut(), __cx) {
                        ::std::task::Poll::Ready(__v) => { #[allow(unused_variables, unreachable_patterns)] let __m = match &__v { $p3 => true, _ => false };
                            if __m { return ::std::task::Poll::Ready(__Out::_3(__v)); } else { __d3 = true; } }
                        ::std::task::Poll::Pending => { __pending = true; } } }
                }
                if __pending { ::std::task::Poll::Pending } else { ::std::task::Poll::Ready(__Out::Disabled) }
            }).await
        };
        #[allow(unreachable_patterns)] match __out {
            __Out::_0($p0) => $h0,
            __Out::_1($p1) => $h1,
            __Out::_2($p2) => $h2,
            __Out::_3($p3) => $h3,
            _ => ::core::panic!("select!: all branches disabled"),
        }
    }};
    ($($t:tt)*) => { $crate::select!(@parse {} $($t)*) };
}
#[macro_export]
macro_rules! pin { ($($x:ident),*) => { $( let mut $x = ::std::boxed::Box::pin($x); )* }; }
extern "Rust" { fn __verif_choose(n: usize) -> usize; }
#[doc(hidden)]
pub fn __choose(n: usize) -> usize { let c = unsafe { __verif_choose(n) }; if c < n { c } else { 0 } }

/// Sequential interior-mutability cell (the verification executor is single-threaded).
pub struct SeqCell<T>(std::cell::UnsafeCell<T>);
unsafe impl<T> Send for SeqCell<T> {}
unsafe impl<T> Sync for SeqCell<T> {}
impl<T> SeqCell<T> {
    pub const fn new(v: T) -> Self { SeqCell(std::cell::UnsafeCell::new(v)) }
    #[allow(clippy::mut_from_ref)]
    pub fn lock(&self) -> Result<&mut T, ()> { Ok(unsafe { &mut *self.0.get() }) }
}

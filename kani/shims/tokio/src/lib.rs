//! Verification shim for tokio: a sequential, cooperative model.
//!
//! * mpsc / oneshot: unbounded FIFO queues (capacity and back-pressure are NOT modelled);
//!   `recv` is Ready(Some) when an item is queued, Ready(None) when empty and every sender is gone,
//!   Pending otherwise.
//! * time::Sleep: fires only when the harness says so (`__verif_timer_fire`), re-armed by `reset`.
//! * spawn: registers the task in a small table; harnesses poll it with `__verif_poll_task`.
//!   (`__verif_spawn_mode() == 0` drops the future instead: used where the spawned task is not
//!   the subject and the state it owns is observed through channels.)
//! * select!: polls every enabled branch once, starting from a harness-chosen index
//!   (`__verif_choose`), with tokio's rule that a Ready value not matching the pattern disables
//!   the branch; all disabled => panic (tokio's behaviour without an `else` branch).
pub mod sync {
    pub mod mpsc {
        use crate::SeqCell as Mutex;
        use std::sync::Arc;
        use std::task::Poll;
        /// fixed-capacity ring (no heap growth): overflow is a hard error, never silently dropped
        pub const QCAP: usize = 4;
        pub struct VecDeque<T> {
            pub items: [Option<T>; QCAP],
            pub head: usize,
            pub len: usize,
        }
        impl<T> VecDeque<T> {
            pub fn new() -> Self {
                Self { items: Default::default(), head: 0, len: 0 }
            }
            pub fn len(&self) -> usize {
                self.len
            }
            pub fn push_back(&mut self, v: T) {
                if self.len >= QCAP {
                    panic!("tokio shim: channel bound exceeded");
                }
                let i = (self.head + self.len) % QCAP;
                self.items[i] = Some(v);
                self.len += 1;
            }
            pub fn pop_front(&mut self) -> Option<T> {
                if self.len == 0 {
                    return None;
                }
                let h = self.head;
                let v = self.items[h].take();
                self.head = (self.head + 1) % QCAP;
                self.len -= 1;
                v
            }
        }
        pub mod error {
            #[derive(Debug)]
            pub struct SendError<T>(pub T);
            impl<T> std::fmt::Display for SendError<T> {
                fn fmt(&self, f: &mut std::fmt::Formatter) -> std::fmt::Result {
                    write!(f, "channel closed")
                }
            }
            #[derive(Debug)]
            pub enum TrySendError<T> {
                Full(T),
                Closed(T),
            }
            impl<T> std::fmt::Display for TrySendError<T> {
                fn fmt(&self, f: &mut std::fmt::Formatter) -> std::fmt::Result {
                    write!(f, "no available capacity / channel closed")
                }
            }
            impl<T: std::fmt::Debug> std::error::Error for TrySendError<T> {}
        }
        pub struct Inner<T> {
            pub q: VecDeque<T>,
            pub rx_alive: bool,
            pub senders: usize,
            /// the capacity the channel was created with. `send().await` waits for room, so under it the channel behaves like an
            /// unbounded FIFO (what this shim models: nothing is lost, order kept); `try_send` does NOT wait: it fails when the
            /// consumer has not drained the channel below its capacity - a legal schedule (slow consumer) the model includes.
            pub cap: usize,
        }
        pub struct Sender<T>(pub Arc<Mutex<Inner<T>>>);
        pub struct Receiver<T>(pub Arc<Mutex<Inner<T>>>);
        impl<T> std::fmt::Debug for Sender<T> {
            fn fmt(&self, f: &mut std::fmt::Formatter) -> std::fmt::Result {
                write!(f, "Sender")
            }
        }
        impl<T> std::fmt::Debug for Receiver<T> {
            fn fmt(&self, f: &mut std::fmt::Formatter) -> std::fmt::Result {
                write!(f, "Receiver")
            }
        }
        pub fn channel<T>(_cap: usize) -> (Sender<T>, Receiver<T>) {
            let i = Arc::new(Mutex::new(Inner { q: VecDeque::new(), rx_alive: true, senders: 1, cap: _cap }));
            (Sender(i.clone()), Receiver(i))
        }
        impl<T> Clone for Sender<T> {
            fn clone(&self) -> Self {
                self.0.lock().unwrap().senders += 1;
                Sender(self.0.clone())
            }
        }
        impl<T> Drop for Sender<T> {
            fn drop(&mut self) {
                self.0.lock().unwrap().senders -= 1;
            }
        }
        impl<T> Drop for Receiver<T> {
            fn drop(&mut self) {
                self.0.lock().unwrap().rx_alive = false;
            }
        }
        impl<T> Sender<T> {
            pub async fn send(&self, v: T) -> Result<(), error::SendError<T>> {
                let g = self.0.lock().unwrap();
                if !g.rx_alive {
                    return Err(error::SendError(v));
                }
                g.q.push_back(v);
                Ok(())
            }
            pub fn is_closed(&self) -> bool {
                !self.0.lock().unwrap().rx_alive
            }
            pub fn try_send(&self, v: T) -> Result<(), error::TrySendError<T>> {
                let g = self.0.lock().unwrap();
                if !g.rx_alive {
                    return Err(error::TrySendError::Closed(v));
                }
                if g.q.len() >= g.cap {
                    return Err(error::TrySendError::Full(v));
                }
                g.q.push_back(v);
                Ok(())
            }
        }
        impl<T> Receiver<T> {
            pub async fn recv(&mut self) -> Option<T> {
                std::future::poll_fn(|_| {
                    let g = self.0.lock().unwrap();
                    match g.q.pop_front() {
                        Some(v) => Poll::Ready(Some(v)),
                        None => {
                            if g.senders == 0 {
                                Poll::Ready(None)
                            } else {
                                Poll::Pending
                            }
                        }
                    }
                })
                .await
            }
            /// harness-side observation helpers (not part of tokio's API)
            pub fn try_pop(&mut self) -> Option<T> {
                self.0.lock().unwrap().q.pop_front()
            }
            pub fn len(&self) -> usize {
                self.0.lock().unwrap().q.len()
            }
        }
    }
    pub mod oneshot {
        use crate::SeqCell as Mutex;
        use std::future::Future;
        use std::pin::Pin;
        use std::sync::Arc;
        use std::task::{Context, Poll};
        pub mod error {
            #[derive(Debug)]
            pub struct RecvError(pub ());
            impl std::fmt::Display for RecvError {
                fn fmt(&self, f: &mut std::fmt::Formatter) -> std::fmt::Result {
                    write!(f, "channel closed")
                }
            }
            impl std::error::Error for RecvError {}
        }
        pub struct Inner<T> {
            pub v: Option<T>,
            pub rx_alive: bool,
            pub tx_alive: bool,
        }
        pub struct Sender<T>(pub Arc<Mutex<Inner<T>>>);
        pub struct Receiver<T>(pub Arc<Mutex<Inner<T>>>);
        impl<T> std::fmt::Debug for Sender<T> {
            fn fmt(&self, f: &mut std::fmt::Formatter) -> std::fmt::Result {
                write!(f, "oneshot::Sender")
            }
        }
        impl<T> std::fmt::Debug for Receiver<T> {
            fn fmt(&self, f: &mut std::fmt::Formatter) -> std::fmt::Result {
                write!(f, "oneshot::Receiver")
            }
        }
        pub fn channel<T>() -> (Sender<T>, Receiver<T>) {
            let i = Arc::new(Mutex::new(Inner { v: None, rx_alive: true, tx_alive: true }));
            (Sender(i.clone()), Receiver(i))
        }
        impl<T> Sender<T> {
            pub fn send(self, v: T) -> Result<(), T> {
                let g = self.0.lock().unwrap();
                if !g.rx_alive {
                    return Err(v);
                }
                g.v = Some(v);
                Ok(())
            }
            pub fn is_closed(&self) -> bool {
                !self.0.lock().unwrap().rx_alive
            }
        }
        impl<T> Drop for Sender<T> {
            fn drop(&mut self) {
                self.0.lock().unwrap().tx_alive = false;
            }
        }
        impl<T> Drop for Receiver<T> {
            fn drop(&mut self) {
                self.0.lock().unwrap().rx_alive = false;
            }
        }
        impl<T> Future for Receiver<T> {
            type Output = Result<T, error::RecvError>;
            fn poll(self: Pin<&mut Self>, _cx: &mut Context<'_>) -> Poll<Self::Output> {
                let g = self.0.lock().unwrap();
                match g.v.take() {
                    Some(v) => Poll::Ready(Ok(v)),
                    None => {
                        if g.tx_alive {
                            Poll::Pending
                        } else {
                            Poll::Ready(Err(error::RecvError(())))
                        }
                    }
                }
            }
        }
    }
}
pub mod time {
    use std::future::Future;
    use std::pin::Pin;
    use std::task::{Context, Poll};
    pub use std::time::Duration;
    #[derive(Clone, Copy, Debug, PartialEq, Eq, PartialOrd, Ord)]
    pub struct Instant(pub u64);
    impl Instant {
        pub fn now() -> Self {
            Instant(0)
        }
    }
    impl std::ops::Add<Duration> for Instant {
        type Output = Instant;
        fn add(self, d: Duration) -> Instant {
            Instant(self.0.wrapping_add(d.as_millis() as u64))
        }
    }
    /// `resets` counts re-arms; `fired` counts completions. Whether a poll completes is the harness's choice.
    #[derive(Debug)]
    pub struct Sleep {
        pub resets: u64,
        pub fired: u64,
        pub deadline: Instant,
        pub elapsed: bool,
    }
    pub fn sleep(d: Duration) -> Sleep {
        Sleep { resets: 0, fired: 0, deadline: Instant::now() + d, elapsed: false }
    }
    impl Sleep {
        pub fn reset(mut self: Pin<&mut Self>, deadline: Instant) {
            self.resets += 1;
            self.deadline = deadline;
            self.elapsed = false;
        }
    }
    fn __verif_timer_fire(_deadline_ms: u64) -> bool {
        let c = crate::CTL.lock().unwrap();
        match c.timer_mode {
            0 => false,
            1 => crate::nondet_bool(),
            3 => {
                c.timer_mode = 0;
                true
            }
            _ => true,
        }
    }
    impl Future for Sleep {
        type Output = ();
        fn poll(mut self: Pin<&mut Self>, _cx: &mut Context<'_>) -> Poll<()> {
            // like tokio, an elapsed Sleep stays Ready until it is reset
            if self.elapsed || __verif_timer_fire(self.deadline.0) {
                if !self.elapsed {
                    self.fired += 1;
                }
                self.elapsed = true;
                Poll::Ready(())
            } else {
                Poll::Pending
            }
        }
    }
}
pub mod task {
    pub struct JoinHandle<T>(pub std::marker::PhantomData<T>);
    pub async fn yield_now() {}
}

type Task = std::pin::Pin<Box<dyn std::future::Future<Output = ()> + Send + 'static>>;
pub const MAX_TASKS: usize = 4;
pub struct Tasks {
    pub slots: [Option<Task>; MAX_TASKS],
    pub n: usize,
    pub finished: [bool; MAX_TASKS],
}
pub static TASKS: SeqCell<Tasks> = SeqCell::new(Tasks { slots: [None, None, None, None], n: 0, finished: [false; MAX_TASKS] });

/// Harness-side control of the environment model.
pub struct Ctl {
    /// false: `spawn` drops the task; true: it is registered in TASKS and polled by the harness
    pub spawn_register: bool,
    /// Sleep polls: 0 = never complete, 1 = nondeterministic, 2 = always complete, 3 = complete once (then back to 0)
    pub timer_mode: u8,
    /// select! start branch: usize::MAX = nondeterministic (a witness draw per select), otherwise this index (mod #branches)
    pub select_start: usize,
}
pub static CTL: SeqCell<Ctl> = SeqCell::new(Ctl { spawn_register: false, timer_mode: 0, select_start: usize::MAX });
pub fn nondet_usize() -> usize {
    vwit::any_usize()
}
pub fn nondet_bool() -> bool {
    vwit::any_bool()
}
pub fn spawn<F>(f: F) -> task::JoinHandle<F::Output>
where
    F: std::future::Future + Send + 'static,
    F::Output: Send + 'static,
{
    if !CTL.lock().unwrap().spawn_register {
        drop(f);
    } else {
        let t = TASKS.lock().unwrap();
        if t.n >= MAX_TASKS {
            panic!("tokio shim: task table full");
        }
        let i = t.n;
        t.slots[i] = Some(Box::pin(async move {
            let _ = f.await;
        }));
        t.n += 1;
    }
    task::JoinHandle(std::marker::PhantomData)
}
/// Poll spawned task `i` once. Returns true when it has completed (now or earlier).
pub fn __verif_poll_task(i: usize) -> bool {
    let t = TASKS.lock().unwrap();
    if t.finished[i] {
        return true;
    }
    let w = noop_waker();
    let mut cx = std::task::Context::from_waker(&w);
    match t.slots[i].as_mut() {
        Some(f) => match f.as_mut().poll(&mut cx) {
            std::task::Poll::Ready(()) => {
                t.finished[i] = true;
                true
            }
            std::task::Poll::Pending => false,
        },
        None => true,
    }
}
pub fn noop_waker() -> std::task::Waker {
    use std::task::{RawWaker, RawWakerVTable, Waker};
    fn clone(_: *const ()) -> RawWaker {
        RawWaker::new(std::ptr::null(), &VT)
    }
    fn noop(_: *const ()) {}
    static VT: RawWakerVTable = RawWakerVTable::new(clone, noop, noop, noop);
    unsafe { Waker::from_raw(RawWaker::new(std::ptr::null(), &VT)) }
}

/// Result of an `async fn` lowered to a plain function by the overlay (kani/overlay.py, deasync): already computed.
pub struct Ready<T>(pub T);
impl<T> Ready<T> {
    #[inline(always)]
    pub fn vnow(self) -> T {
        self.0
    }
}
impl<T: Unpin> std::future::Future for Ready<T> {
    type Output = T;
    fn poll(self: std::pin::Pin<&mut Self>, _cx: &mut std::task::Context<'_>) -> std::task::Poll<T> {
        // move the value out exactly once (polling again is a harness error)
        let me = unsafe { std::ptr::read(&self.get_mut().0) };
        std::task::Poll::Ready(me)
    }
}
/// `.await` of a lowered function: poll exactly once; a future that is not ready is a hard error (never assumed away).
pub trait VNow: std::future::Future + Sized {
    fn vnow(self) -> Self::Output {
        let mut f = std::pin::pin!(self);
        let w = noop_waker();
        let mut cx = std::task::Context::from_waker(&w);
        match f.as_mut().poll(&mut cx) {
            std::task::Poll::Ready(v) => v,
            std::task::Poll::Pending => panic!("verif: awaited future not ready in a lowered function"),
        }
    }
}
impl<F: std::future::Future> VNow for F {}
/// `stream.next().await` inside a lowered run loop: the next item if one is ready now, else `None` ("stop waiting").
pub trait VNowOrNone<T>: std::future::Future<Output = Option<T>> + Sized {
    fn vnow_or_none(self) -> Option<T> {
        let mut f = std::pin::pin!(self);
        let w = noop_waker();
        let mut cx = std::task::Context::from_waker(&w);
        match f.as_mut().poll(&mut cx) {
            std::task::Poll::Ready(v) => v,
            std::task::Poll::Pending => None,
        }
    }
}
impl<T, F: std::future::Future<Output = Option<T>>> VNowOrNone<T> for F {}

/// `fut.await<postfix>` at the end of a lowered function: a plain struct future (poll the inner future, apply the postfix).
pub struct TailFut<F, G> {
    f: F,
    g: Option<G>,
}
impl<F, G> TailFut<F, G> {
    pub fn new<T>(f: F, g: G) -> Self
    where
        F: std::future::Future,
        G: FnOnce(F::Output) -> T,
    {
        TailFut { f, g: Some(g) }
    }
}
impl<F, G> Unpin for TailFut<F, G> {}
impl<T, F: std::future::Future + Unpin, G: FnOnce(F::Output) -> T> std::future::Future for TailFut<F, G> {
    type Output = T;
    fn poll(mut self: std::pin::Pin<&mut Self>, cx: &mut std::task::Context<'_>) -> std::task::Poll<T> {
        let me = &mut *self;
        match std::pin::Pin::new(&mut me.f).poll(cx) {
            std::task::Poll::Ready(v) => match me.g.take() {
                Some(g) => std::task::Poll::Ready(g(v)),
                None => panic!("TailFut polled after completion"),
            },
            std::task::Poll::Pending => std::task::Poll::Pending,
        }
    }
}

include!("select.rs");
include!("select_now.rs");

#[macro_export]
macro_rules! pin {
    ($($x:ident),*) => { $(
        let mut $x = $x;
        #[allow(unused_mut)]
        let mut $x = unsafe { ::std::pin::Pin::new_unchecked(&mut $x) };
    )* };
}
#[doc(hidden)]
pub fn __choose(n: usize) -> usize {
    let fixed = CTL.lock().unwrap().select_start;
    if fixed != usize::MAX {
        return fixed % n;
    }
    let c = nondet_usize();
    if c < n {
        c
    } else {
        0
    }
}

/// Sequential interior-mutability cell (the verification executor is single-threaded).
pub struct SeqCell<T>(std::cell::UnsafeCell<T>);
unsafe impl<T> Send for SeqCell<T> {}
unsafe impl<T> Sync for SeqCell<T> {}
impl<T> SeqCell<T> {
    pub const fn new(v: T) -> Self {
        SeqCell(std::cell::UnsafeCell::new(v))
    }
    #[allow(clippy::mut_from_ref)]
    pub fn lock(&self) -> Result<&mut T, ()> {
        Ok(unsafe { &mut *self.0.get() })
    }
}

//! Verification shim: abstract hash (probe version: toy mixing into 8 bytes, rest zero).
pub trait Digest { fn new() -> Self; fn update(&mut self, data: impl AsRef<[u8]>); fn finalize(self) -> Output; }
pub struct Output(pub [u8; 64]);
impl Output { pub fn as_slice(&self) -> &[u8] { &self.0 } }
pub struct Sha512 { acc: u64, len: u64 }
impl Digest for Sha512 {
    fn new() -> Self { Sha512 { acc: 0, len: 0 } }
    fn update(&mut self, data: impl AsRef<[u8]>) {
        for b in data.as_ref() { self.acc = self.acc.rotate_left(5) ^ (*b as u64) ^ self.len; self.len += 1; }
    }
    fn finalize(self) -> Output { let mut o = [0u8; 64]; o[..8].copy_from_slice(&(self.acc ^ (self.len << 56)).to_le_bytes()); Output(o) }
}
impl Sha512 { pub fn digest(data: impl AsRef<[u8]>) -> Output { let mut h = <Sha512 as Digest>::new(); Digest::update(&mut h, data); Digest::finalize(h) } }

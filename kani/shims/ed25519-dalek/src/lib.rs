//! Verification shim for ed25519-dalek 1.0.
//!
//! * `Sha512` / `Digest`: an abstract hash. The output is a deterministic xor-rotate mixing of the exact pre-image
//!   bytes and their count (cheap to bit-blast); collision freedom is NOT provided by this function and is assumed
//!   by harnesses only for the specific digests they name. The full pre-image of the most recent hash is recorded
//!   in `LAST` so that harnesses can inspect exactly what the real `digest()` functions feed to the hasher (C20).
//! * Keys and signatures: compile-level model with *ideal* semantics, used only so that the real `crypto` crate builds
//!   in profile R (public key bytes = first half of the keypair bytes; a signature is `public key || first 32 bytes of
//!   the message padded`; verification is equality). Nothing about real ed25519 arithmetic is claimed anywhere.
pub const PRE_CAP: usize = 160;
pub struct Recorded {
    pub bytes: [u8; PRE_CAP],
    pub len: usize,
}
pub struct Cell<T>(std::cell::UnsafeCell<T>);
unsafe impl<T> Sync for Cell<T> {}
impl<T> Cell<T> {
    pub const fn new(v: T) -> Self {
        Cell(std::cell::UnsafeCell::new(v))
    }
    #[allow(clippy::mut_from_ref)]
    pub fn get(&self) -> &mut T {
        unsafe { &mut *self.0.get() }
    }
}
/// pre-image of the hash computed most recently (harness-side observation)
pub static LAST: Cell<Recorded> = Cell::new(Recorded { bytes: [0; PRE_CAP], len: 0 });
/// recording costs symbolic-execution time; harnesses that do not inspect pre-images leave it off
pub static RECORD: Cell<bool> = Cell::new(false);

pub trait Digest {
    fn new() -> Self;
    fn update(&mut self, data: impl AsRef<[u8]>);
    fn finalize(self) -> Output;
}
pub struct Output(pub [u8; 64]);
impl Output {
    pub fn as_slice(&self) -> &[u8] {
        &self.0
    }
}
pub struct Sha512 {
    acc: u64,
    len: u64,
}
impl Digest for Sha512 {
    fn new() -> Self {
        if *RECORD.get() {
            LAST.get().len = 0;
        }
        Sha512 { acc: 0, len: 0 }
    }
    fn update(&mut self, data: impl AsRef<[u8]>) {
        let rec = *RECORD.get();
        for b in data.as_ref() {
            self.acc = self.acc.rotate_left(5) ^ (*b as u64) ^ self.len;
            if rec {
                let l = LAST.get();
                if l.len < PRE_CAP {
                    let i = l.len;
                    l.bytes[i] = *b;
                }
                l.len += 1;
            }
            self.len += 1;
        }
    }
    fn finalize(self) -> Output {
        let mut o = [0u8; 64];
        let v = (self.acc ^ (self.len << 56)).to_le_bytes();
        let mut i = 0;
        while i < 8 {
            o[i] = v[i];
            i += 1;
        }
        Output(o)
    }
}
impl Sha512 {
    pub fn digest(data: impl AsRef<[u8]>) -> Output {
        let mut h = <Sha512 as Digest>::new();
        Digest::update(&mut h, data);
        Digest::finalize(h)
    }
}

// ------------------------------------------------------------------ ideal signature scheme (profile R compile model)
pub mod ed25519 {
    #[derive(Debug)]
    pub struct Error;
    impl std::fmt::Display for Error {
        fn fmt(&self, f: &mut std::fmt::Formatter) -> std::fmt::Result {
            f.write_str("signature error")
        }
    }
    impl std::error::Error for Error {}
    pub mod signature {
        pub trait Signature: Sized {
            fn from_bytes(bytes: &[u8]) -> Result<Self, super::Error>;
        }
    }
}
pub use ed25519::Error as SignatureError;
#[derive(Clone, Copy)]
pub struct Signature(pub [u8; 64]);
impl Signature {
    pub fn to_bytes(&self) -> [u8; 64] {
        self.0
    }
}
impl ed25519::signature::Signature for Signature {
    fn from_bytes(bytes: &[u8]) -> Result<Self, ed25519::Error> {
        if bytes.len() != 64 {
            return Err(ed25519::Error);
        }
        let mut a = [0u8; 64];
        a.copy_from_slice(bytes);
        Ok(Signature(a))
    }
}
#[derive(Clone, Copy)]
pub struct PublicKey(pub [u8; 32]);
fn msg32(m: &[u8]) -> [u8; 32] {
    let mut o = [0u8; 32];
    let mut i = 0;
    while i < 32 && i < m.len() {
        o[i] = m[i];
        i += 1;
    }
    o
}
impl PublicKey {
    pub fn from_bytes(b: &[u8]) -> Result<Self, ed25519::Error> {
        if b.len() != 32 {
            return Err(ed25519::Error);
        }
        // Ideal model of "not every 32-byte string is a curve point" (real ed25519: decompression fails for about half of
        // them): the strings ending in 0xFF stand for the encodings that are not points. Honest keys never end in 0xFF.
        if b[31] == 0xFF {
            return Err(ed25519::Error);
        }
        let mut a = [0u8; 32];
        a.copy_from_slice(b);
        Ok(PublicKey(a))
    }
    pub fn to_bytes(&self) -> [u8; 32] {
        self.0
    }
    pub fn verify_strict(&self, msg: &[u8], sig: &Signature) -> Result<(), ed25519::Error> {
        let m = msg32(msg);
        if sig.0[..32] == self.0[..] && sig.0[32..] == m[..] {
            Ok(())
        } else {
            Err(ed25519::Error)
        }
    }
}
pub struct Keypair {
    pub secret: [u8; 32],
    pub public: PublicKey,
}
impl Keypair {
    pub fn generate<R>(_rng: &mut R) -> Self {
        Keypair { secret: [7; 32], public: PublicKey([7; 32]) }
    }
    pub fn from_bytes(b: &[u8]) -> Result<Self, ed25519::Error> {
        if b.len() != 64 {
            return Err(ed25519::Error);
        }
        let mut s = [0u8; 32];
        let mut p = [0u8; 32];
        s.copy_from_slice(&b[..32]);
        p.copy_from_slice(&b[32..]);
        Ok(Keypair { secret: s, public: PublicKey(p) })
    }
    pub fn to_bytes(&self) -> [u8; 64] {
        let mut o = [0u8; 64];
        o[..32].copy_from_slice(&self.secret);
        o[32..].copy_from_slice(&self.public.0);
        o
    }
}
pub trait Signer<S> {
    fn sign(&self, msg: &[u8]) -> S;
}
impl Signer<Signature> for Keypair {
    fn sign(&self, msg: &[u8]) -> Signature {
        let mut o = [0u8; 64];
        o[..32].copy_from_slice(&self.public.0);
        o[32..].copy_from_slice(&msg32(msg));
        Signature(o)
    }
}
pub fn verify_batch(messages: &[&[u8]], signatures: &[Signature], keys: &[PublicKey]) -> Result<(), ed25519::Error> {
    if messages.len() != signatures.len() || messages.len() != keys.len() {
        return Err(ed25519::Error);
    }
    let mut i = 0;
    while i < messages.len() {
        keys[i].verify_strict(messages[i], &signatures[i])?;
        i += 1;
    }
    Ok(())
}

//! Verification shim for the crypto crate: narrow opaque identifiers, ideal signatures.
use serde::{Deserialize, Serialize};
use std::convert::TryFrom;
use std::fmt;
#[derive(Debug)]
pub struct CryptoError;
impl fmt::Display for CryptoError { fn fmt(&self, f: &mut fmt::Formatter) -> fmt::Result { write!(f, "signature error") } }
impl std::error::Error for CryptoError {}
pub const DLEN: usize = 8;
pub const KLEN: usize = 4;
/// Digest payload: the first DLEN bytes of the 32-byte hash output (the abstract hash zero-fills the rest).
#[derive(Hash, PartialEq, Default, Eq, Clone, Copy, Deserialize, Serialize, Ord, PartialOrd)]
pub struct DBytes(pub [u8; DLEN]);
impl TryFrom<&[u8]> for DBytes {
    type Error = ();
    fn try_from(s: &[u8]) -> Result<Self, ()> { if s.len() != 32 { return Err(()); } let mut b = [0u8; DLEN]; b.copy_from_slice(&s[..DLEN]); Ok(DBytes(b)) }
}
#[derive(Hash, PartialEq, Default, Eq, Clone, Deserialize, Serialize, Ord, PartialOrd)]
pub struct Digest(pub DBytes);
impl Digest { pub fn to_vec(&self) -> Vec<u8> { (self.0).0.to_vec() } pub fn size(&self) -> usize { 32 } }
impl fmt::Debug for Digest { fn fmt(&self, f: &mut fmt::Formatter) -> fmt::Result { write!(f, "D") } }
impl fmt::Display for Digest { fn fmt(&self, f: &mut fmt::Formatter) -> fmt::Result { write!(f, "D") } }
impl AsRef<[u8]> for Digest { fn as_ref(&self) -> &[u8] { &(self.0).0 } }
pub trait Hash { fn digest(&self) -> Digest; }
#[derive(Copy, Clone, Eq, PartialEq, Hash, Ord, PartialOrd, Default, Serialize, Deserialize)]
pub struct PublicKey(pub [u8; KLEN]);
impl fmt::Debug for PublicKey { fn fmt(&self, f: &mut fmt::Formatter) -> fmt::Result { write!(f, "K") } }
impl fmt::Display for PublicKey { fn fmt(&self, f: &mut fmt::Formatter) -> fmt::Result { write!(f, "K") } }
impl AsRef<[u8]> for PublicKey { fn as_ref(&self) -> &[u8] { &self.0 } }
pub struct SecretKey(pub [u8; KLEN]);
/// Ideal signature: the pair (signer, digest). `verify` is equality.
#[derive(Serialize, Deserialize, Clone, Default, Debug, PartialEq, Eq)]
pub struct Signature { pub part1: [u8; KLEN], pub part2: [u8; DLEN] }
impl Signature {
    pub fn new(digest: &Digest, secret: &SecretKey) -> Self { Signature { part1: secret.0, part2: (digest.0).0 } }
    pub fn verify(&self, digest: &Digest, public_key: &PublicKey) -> Result<(), CryptoError> {
        if self.part1 == public_key.0 && self.part2 == (digest.0).0 { Ok(()) } else { Err(CryptoError) }
    }
    pub fn verify_batch<'a, I>(digest: &Digest, votes: I) -> Result<(), CryptoError>
    where I: IntoIterator<Item = &'a (PublicKey, Signature)> {
        for (k, s) in votes.into_iter() { s.verify(digest, k)?; }
        Ok(())
    }
}
#[derive(Clone)]
pub struct SignatureService { pub key: [u8; KLEN] }
impl SignatureService {
    pub fn new(secret: SecretKey) -> Self { Self { key: secret.0 } }
    pub async fn request_signature(&mut self, digest: Digest) -> Signature { Signature { part1: self.key, part2: (digest.0).0 } }
}

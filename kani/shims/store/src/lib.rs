//! Verification shim for the store crate (profiles L/R; profile S verifies the real one):
//! a sequential in-memory map with the documented read / write / notify_read semantics.
//! One global, array-backed map (capacity 8, overflow is a hard error), last write wins.
//!
//! Lookup resolution. A generic lookup compares the key with every stored key; with symbolic digests the
//! outcome `Some(value) | None` is then a solver-level merge and the bytes handed to the real
//! `bincode::deserialize` lose their concrete shape (vector lengths become symbolic). Harnesses that let the
//! real code parse stored values therefore *script* the expected resolution of each successive lookup
//! (`script(&[slot or MISS])`); the shim follows the script and ASSERTS (never assumes) that the scripted slot
//! really holds the requested key / that no slot does. Any execution in which the real code looks up
//! something else fails that assertion (`verif-script:` prefix) and is reported, not hidden.
use std::task::Poll;
/// Sequential interior-mutability cell (the verification executor is single-threaded).
pub struct Mutex<T>(std::cell::UnsafeCell<T>);
unsafe impl<T> Send for Mutex<T> {}
unsafe impl<T> Sync for Mutex<T> {}
impl<T> Mutex<T> {
    pub const fn new(v: T) -> Self {
        Mutex(std::cell::UnsafeCell::new(v))
    }
    #[allow(clippy::mut_from_ref)]
    pub fn lock(&self) -> Result<&mut T, ()> {
        Ok(unsafe { &mut *self.0.get() })
    }
}

#[derive(Debug)]
pub struct StoreError;
impl std::fmt::Display for StoreError {
    fn fmt(&self, f: &mut std::fmt::Formatter) -> std::fmt::Result {
        write!(f, "store error")
    }
}
impl std::error::Error for StoreError {}
type StoreResult<T> = Result<T, StoreError>;
type Key = Vec<u8>;
type Value = Vec<u8>;
pub const CAP: usize = 8;
pub const MISS: i8 = -1;
pub struct Map {
    pub items: [Option<(Key, Value)>; CAP],
    pub n: usize,
    /// number of `write` calls ever made (observation aid)
    pub writes: usize,
    /// 4 bits per scripted lookup (0xF = MISS), packed into a scalar: array cells of this static lose constness in CBMC
    pub script: u64,
    pub script_len: usize,
    pub script_pos: usize,
    /// strict: a lookup beyond the script is an error (asserted) and resolves to a miss
    pub strict: bool,
}
pub static MAP: Mutex<Map> = Mutex::new(Map {
    items: [None, None, None, None, None, None, None, None],
    n: 0,
    writes: 0,
    script: 0,
    script_len: 0,
    script_pos: 0,
    strict: false,
});
/// Forget everything (a harness that runs several independent scenarios starts each from an empty store).
pub fn reset() {
    let g = MAP.lock().unwrap();
    let mut i = 0;
    while i < CAP {
        if let Some(kv) = g.items[i].take() {
            std::mem::forget(kv);
        }
        i += 1;
    }
    g.n = 0;
    g.writes = 0;
    g.script_len = 0;
    g.script_pos = 0;
    g.strict = false;
}
/// Expected resolution of the next lookups: slot index (insertion order) or MISS. Lookups beyond the script are generic.
pub fn script(s: &[i8]) {
    let g = MAP.lock().unwrap();
    let mut w: u64 = 0;
    let mut i = 0;
    while i < s.len() {
        let nib: u64 = if s[i] < 0 { 0xF } else { s[i] as u64 };
        w |= nib << (4 * i);
        i += 1;
    }
    g.script = w;
    g.script_len = s.len();
    g.script_pos = 0;
    g.strict = false;
}
/// Like `script`, and additionally every lookup after the scripted ones is asserted not to happen.
pub fn script_strict(s: &[i8]) {
    script(s);
    MAP.lock().unwrap().strict = true;
}
fn keq(a: &[u8], b: &[u8]) -> bool {
    a == b
}
#[derive(Clone)]
pub struct Store {
    _private: (),
}
impl Store {
    pub fn new(_path: &str) -> StoreResult<Self> {
        Ok(Self { _private: () })
    }
    pub async fn write(&mut self, key: Key, value: Value) {
        let g = MAP.lock().unwrap();
        g.writes += 1;
        if g.strict {
            // scripted mode: a write is expected to add a new key (asserted), so no slot is conditionally overwritten
            let mut i = 0;
            while i < g.n {
                if let Some((k, _)) = &g.items[i] {
                    assert!(!keq(k, &key), "verif-script: write to a key that is already stored");
                }
                i += 1;
            }
            if g.n >= CAP {
                panic!("store shim: capacity bound exceeded");
            }
            let n = g.n;
            g.items[n] = Some((key, value));
            g.n += 1;
            return;
        }
        let mut i = 0;
        while i < g.n {
            let same = match &g.items[i] {
                Some((k, _)) => keq(k, &key),
                None => false,
            };
            if same {
                g.items[i] = Some((key, value));
                return;
            }
            i += 1;
        }
        if g.n >= CAP {
            panic!("store shim: capacity bound exceeded");
        }
        let n = g.n;
        g.items[n] = Some((key, value));
        g.n += 1;
    }
    /// insert without the overwrite scan (harness pre-loading of distinct keys)
    pub fn preload(&mut self, key: Key, value: Value) {
        let g = MAP.lock().unwrap();
        if g.n >= CAP {
            panic!("store shim: capacity bound exceeded");
        }
        let n = g.n;
        g.items[n] = Some((key, value));
        g.n += 1;
    }
    pub fn get(&self, key: &[u8]) -> Option<Value> {
        let g = MAP.lock().unwrap();
        if g.script_pos < g.script_len {
            let s = (g.script >> (4 * g.script_pos)) & 0xF;
            g.script_pos += 1;
            if s != 0xF {
                let i = s as usize;
                match &g.items[i] {
                    Some((k, v)) => {
                        assert!(keq(k, key), "verif-script: scripted slot does not hold the requested key");
                        return Some(v.clone());
                    }
                    None => panic!("verif-script: scripted slot is empty"),
                }
            } else {
                let mut i = 0;
                while i < g.n {
                    if let Some((k, _)) = &g.items[i] {
                        assert!(!keq(k, key), "verif-script: scripted miss but the key is stored");
                    }
                    i += 1;
                }
                return None;
            }
        }
        if g.strict {
            assert!(false, "verif-script: store lookup beyond the harness script");
            return None;
        }
        let mut i = 0;
        while i < g.n {
            if let Some((k, v)) = &g.items[i] {
                if keq(k, key) {
                    return Some(v.clone());
                }
            }
            i += 1;
        }
        None
    }
    /// presence test without consuming the script (harness-side observation)
    pub fn contains(&self, key: &[u8]) -> bool {
        let g = MAP.lock().unwrap();
        let mut i = 0;
        while i < g.n {
            if let Some((k, _)) = &g.items[i] {
                if keq(k, key) {
                    return true;
                }
            }
            i += 1;
        }
        false
    }
    pub fn writes(&self) -> usize {
        MAP.lock().unwrap().writes
    }
    pub fn len(&self) -> usize {
        MAP.lock().unwrap().n
    }
    pub async fn read(&mut self, key: Key) -> StoreResult<Option<Value>> {
        Ok(self.get(&key))
    }
    /// completes as soon as the key has a value (checked on every poll; never scripted)
    pub async fn notify_read(&mut self, key: Key) -> StoreResult<Value> {
        std::future::poll_fn(|_| {
            let g = MAP.lock().unwrap();
            let mut i = 0;
            while i < g.n {
                if let Some((k, v)) = &g.items[i] {
                    if keq(k, &key) {
                        return Poll::Ready(Ok(v.clone()));
                    }
                }
                i += 1;
            }
            Poll::Pending
        })
        .await
    }
}

//! Verification shim for the store crate: synchronous in-memory association list.
use std::sync::Arc;
/// Sequential interior-mutability cell (the verification executor is single-threaded).
pub struct Mutex<T>(std::cell::UnsafeCell<T>);
unsafe impl<T> Send for Mutex<T> {}
unsafe impl<T> Sync for Mutex<T> {}
impl<T> Mutex<T> {
    pub const fn new(v: T) -> Self { Mutex(std::cell::UnsafeCell::new(v)) }
    #[allow(clippy::mut_from_ref)]
    pub fn lock(&self) -> Result<&mut T, ()> { Ok(unsafe { &mut *self.0.get() }) }
}

#[derive(Debug)]
pub struct StoreError;
impl std::fmt::Display for StoreError {
    fn fmt(&self, f: &mut std::fmt::Formatter) -> std::fmt::Result { write!(f, "store error") }
}
impl std::error::Error for StoreError {}
type StoreResult<T> = Result<T, StoreError>;
type Key = Vec<u8>;
type Value = Vec<u8>;
#[derive(Clone)]
pub struct Store { pub map: Arc<Mutex<Vec<(Key, Value)>>> }
impl Store {
    pub fn new(_path: &str) -> StoreResult<Self> { Ok(Self { map: Arc::new(Mutex::new(Vec::new())) }) }
    pub async fn write(&mut self, key: Key, value: Value) { self.map.lock().unwrap().push((key, value)); }
    pub fn get(&self, key: &[u8]) -> Option<Value> {
        let g = self.map.lock().unwrap();
        let mut i = g.len();
        while i > 0 { i -= 1; if g[i].0.as_slice() == key { return Some(g[i].1.clone()); } }
        None
    }
    pub async fn read(&mut self, key: Key) -> StoreResult<Option<Value>> { Ok(self.get(&key)) }
    pub async fn notify_read(&mut self, key: Key) -> StoreResult<Value> {
        match self.get(&key) { Some(v) => Ok(v), None => std::future::pending().await }
    }
}

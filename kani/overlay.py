#!/usr/bin/env python3
"""Build the verification overlay: a scratch copy of /repo's *current working tree* in which
the third-party runtime is replaced by the shims under kani/shims and the harness modules under
kani/harness are attached to the real source files with `#[cfg(kani)] #[path=..] mod ..;` lines.

Nothing in the real first-party files is deleted or edited except
  * the mechanical import rewrite  std::collections::{HashMap,HashSet} -> kcoll::{HashMap,HashSet}
  * appended `#[cfg(kani)]` items (harness module declarations, struct-literal constructors).

usage: overlay.py --profile {L,R,S,N} --out DIR [--repo /repo]
"""
import argparse
import os
import re
import shutil
import subprocess
import sys

HERE = os.path.dirname(os.path.abspath(__file__))
SHIMS = os.path.join(HERE, "shims")
HARNESS = os.path.join(HERE, "harness")

# which crates of the workspace are kept real / replaced per profile
PROFILES = {
    # logic profile: real consensus + mempool, everything else shimmed
    "L": dict(members=["consensus", "mempool", "crypto", "store", "network"],
              replace={"crypto": "crypto", "store": "store", "network": "network"},
              kcoll=["consensus", "mempool"]),
    # real encodings: real crypto (base64, serde impls, 32/64 byte types) + real consensus/mempool
    "R": dict(members=["consensus", "mempool", "crypto", "store", "network"],
              replace={"store": "store", "network": "network"},
              kcoll=["consensus", "mempool"]),
    # real store over an in-memory rocksdb model
    "S": dict(members=["store"], replace={}, kcoll=["store"]),
    # real network crate over a scripted tcp/framed model
    "N": dict(members=["network"], replace={}, kcoll=["network"]),
}

PATCHES = {
    "L": ["tokio", "ed25519-dalek", "async-recursion", "bincode"],
    "R": ["tokio", "ed25519-dalek", "async-recursion"],
    "S": ["tokio", "rocksdb"],
    "N": ["tokio", "tokio-util"],
}

# real file -> harness modules attached to it (harness file must exist to be attached)
ATTACH = {
    "consensus/src/config.rs": ["config_h.rs"],
    "consensus/src/core.rs": ["core_env.rs", "core_h.rs"],
    "consensus/src/messages.rs": ["messages_h.rs"],
    "consensus/src/aggregator.rs": ["aggregator_h.rs"],
    "consensus/src/leader.rs": ["leader_h.rs"],
    "consensus/src/synchronizer.rs": ["synchronizer_h.rs"],
    "consensus/src/mempool.rs": ["cmempool_h.rs"],
    "consensus/src/helper.rs": ["chelper_h.rs"],
    "consensus/src/proposer.rs": ["proposer_h.rs"],
    "consensus/src/consensus.rs": ["consensus_h.rs"],
    "mempool/src/config.rs": ["mconfig_h.rs"],
    "mempool/src/batch_maker.rs": ["batch_maker_h.rs"],
    "mempool/src/quorum_waiter.rs": ["quorum_waiter_h.rs"],
    "mempool/src/processor.rs": ["processor_h.rs"],
    "mempool/src/mempool.rs": ["mmempool_h.rs"],
    "mempool/src/helper.rs": ["mhelper_h.rs"],
    "mempool/src/synchronizer.rs": ["msynchronizer_h.rs"],
    "crypto/src/lib.rs": ["crypto_h.rs"],
    "store/src/lib.rs": ["store_h.rs"],
    "network/src/reliable_sender.rs": ["reliable_sender_h.rs"],
    "network/src/receiver.rs": ["receiver_h.rs"],
}
# profile restrictions for attachments (file prefix -> profiles in which the real file exists)
REAL_IN = {
    "consensus/": ["L", "R"], "mempool/": ["L", "R"], "crypto/": ["R"], "store/": ["S"], "network/": ["N"],
}

USE_RE = re.compile(r"^(\s*use\s+)std::collections::(\{[^}]*\}|\w+)\s*;\s*$")


def rewrite_hash_imports(path):
    """use std::collections::{HashMap, HashSet, VecDeque}; -> kcoll for the hash containers only."""
    out, changed = [], False
    for line in open(path).read().split("\n"):
        m = USE_RE.match(line)
        if m:
            names = m.group(2).strip("{}").replace(" ", "").split(",")
            hashy = [n for n in names if n in ("HashMap", "HashSet")]
            other = [n for n in names if n and n not in ("HashMap", "HashSet")]
            if hashy:
                changed = True
                out.append("%skcoll::{%s};" % (m.group(1), ", ".join(hashy)))
                if other:
                    out.append("%sstd::collections::{%s};" % (m.group(1), ", ".join(other)))
                continue
        out.append(line)
    if changed:
        open(path, "w").write("\n".join(out))
    return changed


def main():
    ap = argparse.ArgumentParser()
    ap.add_argument("--profile", required=True, choices=sorted(PROFILES))
    ap.add_argument("--out", required=True)
    ap.add_argument("--repo", default=os.environ.get("VERIF_REPO", "/repo"))
    ap.add_argument("--features", default="")
    a = ap.parse_args()
    prof = PROFILES[a.profile]
    out = os.path.abspath(a.out)
    if os.path.exists(out):
        shutil.rmtree(out)
    os.makedirs(out)
    report = {"profile": a.profile, "rewritten_imports": [], "attached": [], "real_files": []}

    # 1. copy the working tree (not HEAD: checks must see uncommitted edits)
    for m in prof["members"]:
        src = os.path.join(a.repo, m)
        if m in prof["replace"]:
            shutil.copytree(os.path.join(SHIMS, prof["replace"][m]), os.path.join(out, m))
        else:
            shutil.copytree(src, os.path.join(out, m), ignore=shutil.ignore_patterns("target", ".*.swp"))
    # members that are dependencies but not listed: none by construction (path deps stay inside `members`)
    shutil.copytree(os.path.join(SHIMS, "kcoll"), os.path.join(out, "kcoll"))
    for p in PATCHES[a.profile]:
        shutil.copytree(os.path.join(SHIMS, p), os.path.join(out, "_shim_" + p))

    # 2. workspace manifest
    real_members = [m for m in prof["members"]]
    # drop path deps that are not members in this profile (S and N profiles are single crates)
    ws = "[workspace]\nmembers = [%s]\n\n[patch.crates-io]\n" % ", ".join('"%s"' % m for m in real_members + ["kcoll"])
    for p in PATCHES[a.profile]:
        ws += '%s = { path = "_shim_%s" }\n' % (p, p)
    ws += "\n[profile.dev]\ndebug = false\n"
    open(os.path.join(out, "Cargo.toml"), "w").write(ws)
    lock = os.path.join(a.repo, "Cargo.lock")
    if os.path.exists(lock):
        shutil.copy(lock, os.path.join(out, "Cargo.lock"))

    # 3. kcoll dependency + import rewrite in the real crates
    for m in prof["kcoll"]:
        if m in prof["replace"]:
            continue
        ct = os.path.join(out, m, "Cargo.toml")
        s = open(ct).read()
        s = re.sub(r"(?m)^\[dependencies\]\s*$", '[dependencies]\nkcoll = { path = "../kcoll" }', s, count=1)
        if "[lints.rust]" not in s:
            s += '\n[lints.rust]\nunexpected_cfgs = { level = "allow" }\n'
        open(ct, "w").write(s)
        for root, _, files in os.walk(os.path.join(out, m, "src")):
            for f in files:
                if f.endswith(".rs") and "/tests" not in root:
                    p = os.path.join(root, f)
                    if rewrite_hash_imports(p):
                        report["rewritten_imports"].append(os.path.relpath(p, out))

    # 4. attach harness modules (a private copy inside the overlay, so that Kani's in-place
    #    concrete playback edits the scratch copy and never /verif)
    global HARNESS
    shutil.copytree(HARNESS, os.path.join(out, "_harness"))
    HARNESS = os.path.join(out, "_harness")
    for rel, mods in ATTACH.items():
        ok = any(rel.startswith(pref) and a.profile in profs for pref, profs in REAL_IN.items())
        p = os.path.join(out, rel)
        if not ok or not os.path.exists(p):
            continue
        report["real_files"].append(rel)
        extra = ""
        for h in mods:
            hp = os.path.join(HARNESS, h)
            if os.path.exists(hp):
                relp = "../" * (rel.count("/")) + "_harness/" + h
                extra += '\n#[cfg(kani)]\n#[path = "%s"]\npub(crate) mod kani_%s;\n' % (relp, h[:-3])
                report["attached"].append((rel, h))
        if extra:
            with open(p, "a") as f:
                f.write(extra)
    # cfg(kani) items that must live inside a real module (struct-literal constructors, re-exports)
    apdir = os.path.join(HARNESS, "append")
    for fn in sorted(os.listdir(apdir)) if os.path.isdir(apdir) else []:
        rel = fn.replace("__", "/")
        p = os.path.join(out, rel)
        ok = any(rel.startswith(pref) and a.profile in profs for pref, profs in REAL_IN.items())
        if ok and os.path.exists(p):
            with open(p, "a") as f:
                f.write("\n" + open(os.path.join(apdir, fn)).read())
            report["attached"].append((rel, "append/" + fn))
    import json
    json.dump(report, open(os.path.join(out, "overlay_report.json"), "w"), indent=1)
    print(json.dumps(report))


if __name__ == "__main__":
    main()

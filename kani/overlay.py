#!/usr/bin/env python3
"""Build the verification overlay: a scratch copy of /repo's *current working tree* in which
the third-party runtime is replaced by the shims under kani/shims and the harness modules under
kani/harness are attached to the real source files with `#[cfg(kani)] #[path=..] mod ..;` lines.

Nothing in the real first-party files is deleted or edited except
  * the mechanical import rewrite  std::collections::{HashMap,HashSet} -> kcoll::{HashMap,HashSet}
  * appended `#[cfg(kani)]` items (harness module declarations, struct-literal constructors).

usage: overlay.py --profile {L,R,S,N} --out DIR [--repo /repo]
"""
import argparse
import os
import re
import shutil
import subprocess
import sys

HERE = os.path.dirname(os.path.abspath(__file__))
SHIMS = os.path.join(HERE, "shims")
HARNESS = os.path.join(HERE, "harness")

# which crates of the workspace are kept real / replaced per profile
PROFILES = {
    # logic profile: real consensus + mempool, everything else shimmed
    "L": dict(members=["consensus", "mempool", "crypto", "store", "network"],
              replace={"crypto": "crypto", "store": "store", "network": "network"},
              kcoll=["consensus", "mempool"]),
    # real encodings: real crypto (base64, serde impls, 32/64 byte types) + real consensus/mempool
    "R": dict(members=["consensus", "mempool", "crypto", "store", "network"],
              replace={"store": "store", "network": "network"},
              kcoll=["consensus", "mempool", "crypto"]),
    # real store over an in-memory rocksdb model
    "S": dict(members=["store"], replace={}, kcoll=["store"]),
    # real network crate over a scripted tcp/framed model
    "N": dict(members=["network"], replace={}, kcoll=["network"]),
}

# "<P>8": same as <P> with kcoll capacity 8 (committees of up to 7)
PROFILES["L8"] = PROFILES["L"]
PATCHES = {
    "L": ["tokio", "ed25519-dalek", "async-recursion", "bincode", "futures", "bytes"],
    "R": ["tokio", "ed25519-dalek", "async-recursion", "bytes"],
    "L8": ["tokio", "ed25519-dalek", "async-recursion", "bincode", "futures", "bytes"],
    "S": ["tokio", "rocksdb"],
    "N": ["tokio", "tokio-util"],
}

# real file -> harness modules attached to it (harness file must exist to be attached)
ATTACH = {
    "consensus/src/config.rs": ["config_h.rs"],
    "consensus/src/core.rs": ["core_env.rs", "core_h.rs", "core2_h.rs"],
    "consensus/src/messages.rs": ["messages_h.rs", "messages_r.rs"],
    "consensus/src/aggregator.rs": ["aggregator_h.rs"],
    "consensus/src/leader.rs": ["leader_h.rs"],
    "consensus/src/synchronizer.rs": ["synchronizer_h.rs"],
    "consensus/src/mempool.rs": ["cmempool_h.rs"],
    "consensus/src/helper.rs": ["chelper_h.rs"],
    "consensus/src/proposer.rs": ["proposer_h.rs"],
    "consensus/src/consensus.rs": ["consensus_h.rs"],
    "mempool/src/config.rs": ["mconfig_h.rs"],
    "mempool/src/batch_maker.rs": ["batch_maker_h.rs"],
    "mempool/src/quorum_waiter.rs": ["quorum_waiter_h.rs"],
    "mempool/src/processor.rs": ["processor_h.rs"],
    "mempool/src/mempool.rs": ["mmempool_h.rs"],
    "mempool/src/helper.rs": ["mhelper_h.rs"],
    "mempool/src/synchronizer.rs": ["msynchronizer_h.rs"],
    "crypto/src/lib.rs": ["crypto_r.rs"],
    "store/src/lib.rs": ["store_h.rs"],
    "network/src/reliable_sender.rs": ["reliable_sender_h.rs"],
    "network/src/receiver.rs": ["receiver_h.rs"],
}
# profile restrictions for attachments (file prefix -> profiles in which the real file exists)
REAL_IN = {
    "consensus/": ["L", "R", "L8"], "mempool/": ["L", "R", "L8"], "crypto/": ["R"], "store/": ["S"], "network/": ["N"],
}

USE_RE = re.compile(r"^(\s*use\s+)std::collections::(\{[^}]*\}|\w+)\s*;\s*$")


def rewrite_hash_imports(path):
    """use std::collections::{HashMap, HashSet, VecDeque}; -> kcoll for the hash containers only."""
    out, changed = [], False
    for line in open(path).read().split("\n"):
        m = USE_RE.match(line)
        if m:
            names = m.group(2).strip("{}").replace(" ", "").split(",")
            hashy = [n for n in names if n in ("HashMap", "HashSet", "VecDeque")]
            other = [n for n in names if n and n not in ("HashMap", "HashSet", "VecDeque")]
            if hashy:
                changed = True
                out.append("%skcoll::{%s};" % (m.group(1), ", ".join(hashy)))
                if other:
                    out.append("%sstd::collections::{%s};" % (m.group(1), ", ".join(other)))
                continue
        out.append(line)
    if changed:
        open(path, "w").write("\n".join(out))
    return changed


# files whose straight-line `async fn`s are lowered to plain functions (see deasync)
DEASYNC = ["consensus/src/core.rs", "consensus/src/synchronizer.rs", "consensus/src/messages.rs", "consensus/src/mempool.rs",
           "mempool/src/batch_maker.rs", "consensus/src/helper.rs", "mempool/src/helper.rs", "consensus/src/proposer.rs",
           "mempool/src/quorum_waiter.rs"]
# run loops of the shape `loop { tokio::select! { .. } .. }` whose handlers never legitimately suspend: lowered with the
# synchronous select (shims/tokio select_now!): the function returns when no branch is ready
LOWER_LOOPS = {("mempool/src/batch_maker.rs", "run"), ("mempool/src/quorum_waiter.rs", "run")}
# async fns that must keep genuine suspension although they contain no select! (they wait for a peer's acknowledgement)
KEEP_ASYNC = set()
# Inside a lowered run loop, these awaits mean "wait for the next acknowledgement"; lowered they become "take the next
# acknowledgement that is already there, else stop waiting" (vnow_or_none): exact for schedules in which every
# acknowledgement that will ever arrive has arrived before the step, which is what the C12 harnesses use.
AWAIT_OR_NONE = {("mempool/src/quorum_waiter.rs", "run"): ["wait_for_quorum.next().await"]}
# async fns of the shape `PREFIX; <future>.await<postfix>` whose final await is a genuine wait (the store's reply): lowered to a
# plain fn that runs PREFIX at call time (awaits inside it polled once) and returns `::tokio::TailFut(<future>, |v| v<postfix>)`,
# an ordinary struct future instead of a coroutine. Difference to the async fn: PREFIX runs when the future is created, not at
# its first poll; the harnesses poll every such future right after creating it.
TAIL_AWAIT = {("store/src/lib.rs", "read"), ("store/src/lib.rs", "notify_read"), ("mempool/src/quorum_waiter.rs", "waiter")}
ASYNC_FN_RE = re.compile(r"\basync fn\s+(\w+)")


def _split_tail(body):
    """(prefix, tail expression) of a block body: the tail starts after the last `;` or `}` at brace depth 0 that is followed by code"""
    d, cut, i, n = 0, 0, 0, len(body)
    while i < n:
        c = body[i]
        if c == '"':
            i += 1
            while body[i] != '"':
                i += 2 if body[i] == "\\" else 1
        elif c == "/" and body[i + 1] == "/":
            i = body.index("\n", i)
        elif c in "{(":
            d += 1
        elif c in "})":
            d -= 1
            if d == 0 and c == "}" and body[i + 1:].strip():
                cut = i + 1
        elif c == ";" and d == 0 and body[i + 1:].strip():
            cut = i + 1
        i += 1
    return body[:cut], body[cut:]


def _match_brace(s, i):
    """index of the brace closing the one at s[i] (string/char literals and comments are skipped approximately)"""
    d, n = 0, len(s)
    while i < n:
        c = s[i]
        if c == '"':
            i += 1
            while s[i] != '"':
                i += 2 if s[i] == "\\" else 1
        elif c == "/" and s[i + 1] == "/":
            i = s.index("\n", i)
        elif c == "{":
            d += 1
        elif c == "}":
            d -= 1
            if d == 0:
                return i
        i += 1
    raise ValueError("unbalanced braces")


def deasync(path, rel=""):
    """Mechanical lowering of `async fn f(args) -> T { body }` to
           fn f(args) -> ::tokio::Ready<T> { ::tokio::Ready((move || -> T { body' })()) }
    with every `.await` in body' replaced by `.vnow()` (poll exactly once; Pending is a hard error). In the shim environment every
    awaited future of these functions is immediately ready, so the two are equivalent; what changes is that CBMC sees ordinary
    functions instead of compiler-generated coroutine state machines. Functions whose body contains `select!`, `spawn(` or an
    `async` block keep their real async form (they need genuine suspension) and call the lowered ones through `Ready: Future`.
    Returns the list of lowered function names."""
    s = open(path).read()
    out, pos, lowered, kept = [], 0, [], []
    while True:
        m = ASYNC_FN_RE.search(s, pos)
        if not m:
            out.append(s[pos:])
            break
        # signature runs to the first '{' at parenthesis depth 0
        i, d = m.end(), 0
        while not (s[i] == "{" and d == 0):
            if s[i] in "(<[":
                d += 1 if s[i] != "<" else 0
            if s[i] in ")]":
                d -= 1
            i += 1
        j = _match_brace(s, i)
        sig, body = s[m.start():i], s[i + 1:j]
        if (rel, m.group(1)) in KEEP_ASYNC:
            kept.append(m.group(1))
            out.append(s[pos:j + 1])
            pos = j + 1
            continue
        if (rel, m.group(1)) in TAIL_AWAIT:
            pre, tail = _split_tail(body)
            tm = re.match(r"^\s*(\w+)\s*\.await(.*)$", tail, re.S)
            am = re.search(r"\)\s*->\s*(.+)$", sig.rstrip(), re.S)
            wm = re.match(r"^\s*let _ = (\w+)\.await;\s*(\w+)\s*$", body, re.S)
            if wm and am:
                # `let _ = <future>.await; <value>`  ->  TailFut(<future>, |_| <value>)
                sig2 = sig.replace("async fn", "fn", 1).rstrip()
                sig2 = sig2[:re.search(r"\)\s*->\s*(.+)$", sig2, re.S).start()] + ") -> impl ::std::future::Future<Output = %s> " % am.group(1).strip()
                out.append(s[pos:m.start()])
                out.append("%s{ ::tokio::TailFut::new(%s, move |_| %s) }" % (sig2, wm.group(1), wm.group(2)))
                lowered.append(m.group(1) + " (tail await kept)")
                pos = j + 1
                continue
            if not tm or not am:
                raise SystemExit("deasync: %s::%s does not end in `<future>.await<postfix>`" % (rel, m.group(1)))
            sig2 = sig.replace("async fn", "fn", 1).rstrip()
            sig2 = sig2[:re.search(r"\)\s*->\s*(.+)$", sig2, re.S).start()] + ") -> impl ::std::future::Future<Output = %s> " % am.group(1).strip()
            out.append(s[pos:m.start()])
            out.append("%s{ #[allow(unused_imports)] use ::tokio::{VNow as _, VNowOrNone as _}; %s ::tokio::TailFut::new(%s, move |__v| __v%s) }"
                       % (sig2, pre.replace(".await", ".vnow()"), tm.group(1), tm.group(2).rstrip()))
            lowered.append(m.group(1) + " (tail await kept)")
            pos = j + 1
            continue
        if (rel, m.group(1)) in LOWER_LOOPS:
            body = body.replace("tokio::select!", "tokio::select_now!", 1)  # the outer select only
            for pat in AWAIT_OR_NONE.get((rel, m.group(1)), []):
                body = body.replace(pat, pat[:-len(".await")] + ".vnow_or_none()")
        elif re.search(r"select!|spawn\(|\basync\b", body):
            kept.append(m.group(1))
            out.append(s[pos:j + 1])
            pos = j + 1
            continue
        sig2 = sig.replace("async fn", "fn", 1).rstrip()
        am = re.search(r"\)\s*->\s*(.+)$", sig2, re.S)
        if am:
            ret = am.group(1).strip()
            sig2 = sig2[:am.start()] + ") -> ::tokio::Ready<%s> " % ret
        else:
            ret = "()"
            sig2 = sig2 + " -> ::tokio::Ready<()> "
        body2 = body.replace(".await", ".vnow()")
        out.append(s[pos:m.start()])
        out.append("%s{ #[allow(unused_imports)] use ::tokio::{VNow as _, VNowOrNone as _}; ::tokio::Ready((move || -> %s {%s})()) }" % (sig2, ret, body2))
        lowered.append(m.group(1))
        pos = j + 1
    open(path, "w").write("".join(out).replace("#[async_recursion]", ""))
    return lowered, kept


def lower_spawned_loop(path):
    """`fn new(..) -> StoreResult<Self> { ..; tokio::spawn(async move { BODY }); Ok(Self {..}) }` gets a sibling
           pub fn verif_new(..) -> StoreResult<(Self, impl FnMut())> { ..; let __task = move || { BODY' }; Ok((Self {..}, __task)) }
    generated from the current text of `new` on every run: BODY' is BODY with `<rx>.recv().await` replaced by
    `<rx>.recv().vnow_or_none()` (take the next queued command if there is one, else return: a real executor would suspend the task
    there) and any other `.await` by `.vnow()`. The harness owns the closure as a plain local and calls it wherever the real
    scheduler could run the store task. Statements, order and every call of the real command loop are unchanged."""
    s = open(path).read()
    m = re.search(r"pub fn new\(([^)]*)\)\s*->\s*StoreResult<Self>\s*\{", s)
    if not m:
        raise SystemExit("lower_spawned_loop: `pub fn new(..) -> StoreResult<Self>` not found")
    i = m.end() - 1
    j = _match_brace(s, i)
    body = s[i + 1:j]
    sm = re.search(r"tokio::spawn\(async move \{", body)
    if not sm:
        raise SystemExit("lower_spawned_loop: no `tokio::spawn(async move {` in Store::new")
    bi = sm.end() - 1
    bj = _match_brace(body, bi)
    tail = body[bj + 1:]
    tm = re.match(r"\s*\)\s*;", tail)
    if not tm:
        raise SystemExit("lower_spawned_loop: unexpected text after the spawned block")
    task = body[bi + 1:bj].replace(".recv().await", ".recv().vnow_or_none()").replace(".await", ".vnow()")
    rest = tail[tm.end():]
    om = re.search(r"Ok\((Self\s*\{[^}]*\})\)\s*$", rest)
    if not om:
        raise SystemExit("lower_spawned_loop: Store::new does not end in `Ok(Self { .. })`")
    rest2 = rest[:om.start()] + "Ok((%s, __task))\n" % om.group(1)
    new_fn = ("\n    /// generated by kani/overlay.py from the text of `new` (see lower_spawned_loop)\n"
              "    pub fn verif_new(%s) -> StoreResult<(Self, impl FnMut())> {%s let __task = move || { #[allow(unused_imports)] use ::tokio::{VNow as _, VNowOrNone as _}; %s };%s    }\n"
              % (m.group(1), body[:sm.start()], task, rest2))
    # state-passing variant (one-step harnesses from an arbitrary parked-waiter state): the `let mut obligations = <init>;`
    # statement of the prefix is lifted out - the closure takes the waiter table as `&mut` argument and the initial table is
    # returned to the harness, which owns it between runs of the task (and can inspect or pre-fill it). BODY' is the same text.
    OBT = "HashMap<Key, VecDeque<oneshot::Sender<StoreResult<Value>>>>"
    prefix = body[:sm.start()]
    om2 = re.search(r"let\s+mut\s+obligations\s*=\s*([^;]*);", prefix)
    lowered = ["Store::new -> verif_new (spawned command loop as a closure)"]
    st_fn = ""
    if om2:
        prefix2 = prefix[:om2.start()] + prefix[om2.end():]
        rest3 = rest[:om.start()] + "Ok((%s, __task, __obl0))\n" % om.group(1)
        st_fn = ("\n    /// generated by kani/overlay.py from the text of `new` (state-passing variant, see lower_spawned_loop)\n"
                 "    pub fn verif_new_st(%s) -> StoreResult<(Self, impl FnMut(&mut %s), %s)> {%s let __obl0: %s = %s; let __task = move |obligations: &mut %s| { #[allow(unused_imports)] use ::tokio::{VNow as _, VNowOrNone as _}; %s };%s    }\n"
                 % (m.group(1), OBT, OBT, prefix2, OBT, om2.group(1), OBT, task, rest3))
        lowered.append("Store::new -> verif_new_st (same loop, waiter table owned by the harness between runs)")
    s = s[:j + 1] + new_fn + st_fn + s[j + 1:]
    open(path, "w").write(s)
    return lowered


def lower_trait_dispatch(path, impl_for):
    """`#[async_trait] impl MessageHandler for X { async fn dispatch(&self, writer: &mut Writer, serialized: Bytes) -> R { BODY } }`
    gets a sibling inherent method, generated from the current text of `dispatch` on every run,
           impl X { pub fn verif_dispatch(&self, writer: &mut Writer, serialized: Bytes) -> R { BODY' } }
    where BODY' is BODY with `.await` replaced by `.vnow()` (poll once; Pending is a hard error). The async_trait original boxes
    its coroutine (`Pin<Box<dyn Future>>`), which did not finish symbolic execution (12 GB at 800 s); statements, order and
    every call of the real handler are unchanged."""
    s = open(path).read()
    m = re.search(r"impl\s+MessageHandler\s+for\s+%s\s*\{" % re.escape(impl_for), s)
    if not m:
        raise SystemExit("lower_trait_dispatch: impl MessageHandler for %s not found" % impl_for)
    ie = _match_brace(s, m.end() - 1)
    blk = s[m.end():ie]
    fm = re.search(r"async\s+fn\s+dispatch\s*\(([^)]*)\)\s*->\s*([^{]*)\{", blk)
    if not fm:
        raise SystemExit("lower_trait_dispatch: async fn dispatch not found")
    bi = m.end() + fm.end() - 1
    bj = _match_brace(s, bi)
    body = s[bi + 1:bj].replace(".await", ".vnow()")
    new = ("\n/// generated by kani/overlay.py from the text of `dispatch` (see lower_trait_dispatch)\n"
           "impl %s {\n    pub fn verif_dispatch(%s) -> %s {\n        #[allow(unused_imports)] use ::tokio::VNow as _;\n%s\n    }\n}\n"
           % (impl_for, fm.group(1), fm.group(2).strip(), body))
    s = s[:ie + 1] + new + s[ie + 1:]
    open(path, "w").write(s)
    return ["%s::dispatch -> verif_dispatch (async_trait method as a plain fn)" % impl_for]


def lower_spawn_fn(path, struct_hint=""):
    """`pub fn spawn(ARGS) { tokio::spawn(async move { BODY }); }` gets a sibling
           pub fn verif_spawn(ARGS) -> impl FnMut() { let __task = move || { BODY' }; __task }
    generated from the current text on every run (same rewriting of BODY as lower_spawned_loop)."""
    s = open(path).read()
    m = re.search(r"pub fn spawn\(", s)
    if not m:
        raise SystemExit("lower_spawn_fn: `pub fn spawn(` not found in " + path)
    # argument list up to the matching parenthesis
    i, d = m.end() - 1, 0
    while True:
        if s[i] == "(":
            d += 1
        elif s[i] == ")":
            d -= 1
            if d == 0:
                break
        i += 1
    args = s[m.end():i]
    b = s.index("{", i)
    if s[i + 1:b].strip():
        raise SystemExit("lower_spawn_fn: spawn has a return type")
    e = _match_brace(s, b)
    body = s[b + 1:e]
    sm = re.match(r"\s*tokio::spawn\(async move \{", body)
    if not sm:
        raise SystemExit("lower_spawn_fn: body does not start with `tokio::spawn(async move {`")
    bi = sm.end() - 1
    bj = _match_brace(body, bi)
    if not re.match(r"^\s*\)\s*;\s*$", body[bj + 1:]):
        raise SystemExit("lower_spawn_fn: text after the spawned block")
    task = body[bi + 1:bj].replace(".recv().await", ".recv().vnow_or_none()").replace(".await", ".vnow()")
    new_fn = ("\n    /// generated by kani/overlay.py from the text of `spawn` (see lower_spawn_fn)\n"
              "    pub fn verif_spawn(%s) -> impl FnMut() { let __task = move || { #[allow(unused_imports)] use ::tokio::{VNow as _, VNowOrNone as _}; %s }; __task }\n"
              % (args, task))
    s = s[:e + 1] + new_fn + s[e + 1:]
    open(path, "w").write(s)
    return ["spawn -> verif_spawn (spawned loop as a closure)"]


def main():
    ap = argparse.ArgumentParser()
    ap.add_argument("--profile", required=True, choices=sorted(PROFILES))
    ap.add_argument("--out", required=True)
    ap.add_argument("--repo", default=os.environ.get("VERIF_REPO", "/repo"))
    ap.add_argument("--features", default="")
    ap.add_argument("--replay", action="store_true", help="native replay build: harnesses become #[test]s, kani attributes are stripped")
    a = ap.parse_args()
    prof = PROFILES[a.profile]
    out = os.path.abspath(a.out)
    if os.path.exists(out):
        shutil.rmtree(out)
    os.makedirs(out)
    report = {"profile": a.profile, "rewritten_imports": [], "attached": [], "real_files": []}

    # 1. copy the working tree (not HEAD: checks must see uncommitted edits)
    for m in prof["members"]:
        src = os.path.join(a.repo, m)
        if m in prof["replace"]:
            shutil.copytree(os.path.join(SHIMS, prof["replace"][m]), os.path.join(out, m))
        else:
            shutil.copytree(src, os.path.join(out, m), ignore=shutil.ignore_patterns("target", ".*.swp"))
    # members that are dependencies but not listed: none by construction (path deps stay inside `members`)
    shutil.copytree(os.path.join(SHIMS, "vwit"), os.path.join(out, "vwit"))
    shutil.copytree(os.path.join(SHIMS, "kcoll"), os.path.join(out, "kcoll"))
    if a.profile.endswith("8"):
        kp = os.path.join(out, "kcoll", "src", "lib.rs")
        ks = open(kp).read().replace("pub const CAP: usize = 4;", "pub const CAP: usize = 8;")
        open(kp, "w").write(ks)
    if a.profile == "S":
        # the store keeps a VecDeque of waiters per key: every drop of such a container walks all its slots, so the capacities
        # are cut to what the C16 schedules need (2 keys with waiters, 3 waiters per key; overflow is a hard error)
        kp = os.path.join(out, "kcoll", "src", "lib.rs")
        ks = open(kp).read()
        assert "pub const CAP: usize = 4;" in ks and "pub const DQ_CAP: usize = 8;" in ks
        ks = ks.replace("pub const CAP: usize = 4;", "pub const CAP: usize = 2;").replace("pub const DQ_CAP: usize = 8;", "pub const DQ_CAP: usize = 3;")
        open(kp, "w").write(ks)
    for p in PATCHES[a.profile]:
        shutil.copytree(os.path.join(SHIMS, p), os.path.join(out, "_shim_" + p))

    # 2. workspace manifest
    real_members = [m for m in prof["members"]]
    # drop path deps that are not members in this profile (S and N profiles are single crates)
    ws = "[workspace]\nmembers = [%s]\n\n[patch.crates-io]\n" % ", ".join('"%s"' % m for m in real_members + ["kcoll", "vwit"])
    for p in PATCHES[a.profile]:
        ws += '%s = { path = "_shim_%s" }\n' % (p, p)
    ws += "\n[profile.dev]\ndebug = false\n"
    open(os.path.join(out, "Cargo.toml"), "w").write(ws)
    lock = os.path.join(a.repo, "Cargo.lock")
    if os.path.exists(lock):
        shutil.copy(lock, os.path.join(out, "Cargo.lock"))

    # 3. kcoll dependency + import rewrite in the real crates
    for m in prof["kcoll"]:
        if m in prof["replace"]:
            continue
        ct = os.path.join(out, m, "Cargo.toml")
        s = open(ct).read()
        s = re.sub(r"(?m)^\[dependencies\]\s*$", '[dependencies]\nkcoll = { path = "../kcoll" }\nvwit = { path = "../vwit" }', s, count=1)
        if a.replay:
            # the repository's own test modules and dev-dependencies target the real runtime, not the shims
            s = re.sub(r"(?ms)^\[dev-dependencies\].*?(?=^\[|\Z)", "", s)
        if "[lints.rust]" not in s:
            s += '\n[lints.rust]\nunexpected_cfgs = { level = "allow" }\n'
        open(ct, "w").write(s)
        for root, _, files in os.walk(os.path.join(out, m, "src")):
            for f in files:
                if f.endswith(".rs") and "/tests" not in root:
                    p = os.path.join(root, f)
                    if a.replay:
                        src = open(p).read()
                        src2 = re.sub(r'#\[cfg\(test\)\]\s*\n#\[path = "tests/[^"]+"\]\s*\n(pub )?mod \w+;', "", src)
                        if src2 != src:
                            open(p, "w").write(src2)
                    if rewrite_hash_imports(p):
                        report["rewritten_imports"].append(os.path.relpath(p, out))

    # 3b. lower straight-line async fns of the Core family to plain functions
    report["deasync"] = {}
    if a.profile in ("L", "L8", "R"):
        for rel in DEASYNC:
            p = os.path.join(out, rel)
            if os.path.exists(p):
                lowered, kept = deasync(p, rel)
                report["deasync"][rel] = {"lowered": lowered, "kept_async": kept}

    if a.profile in ("L", "L8", "R"):
        pp = os.path.join(out, "mempool/src/processor.rs")
        if os.path.exists(pp):
            report["deasync"]["mempool/src/processor.rs"] = {"lowered": lower_spawn_fn(pp), "kept_async": []}
        mp = os.path.join(out, "mempool/src/mempool.rs")
        if os.path.exists(mp):
            report["deasync"]["mempool/src/mempool.rs"] = {"lowered": lower_trait_dispatch(mp, "MempoolReceiverHandler"), "kept_async": []}
    if a.profile == "S":
        sp = os.path.join(out, "store/src/lib.rs")
        low = lower_spawned_loop(sp)
        lowered, kept = deasync(sp, "store/src/lib.rs")
        report["deasync"]["store/src/lib.rs"] = {"lowered": low + lowered, "kept_async": kept}

    # 4. attach harness modules (a private copy inside the overlay, so that Kani's in-place
    #    concrete playback edits the scratch copy and never /verif)
    global HARNESS
    shutil.copytree(HARNESS, os.path.join(out, "_harness"))
    HARNESS = os.path.join(out, "_harness")
    guard = "verif_replay" if a.replay else "kani"
    if a.replay:
        for root, _, files in os.walk(HARNESS):
            for f in files:
                hp = os.path.join(root, f)
                src = open(hp).read()
                src = src.replace("#[kani::proof]", "#[test]")
                src = re.sub(r"(?m)^\s*#\[kani::(unwind|stub|solver)\([^\n]*\)\]\s*\n", "", src)
                src = src.replace("#[cfg(kani)]", "#[cfg(verif_replay)]")
                open(hp, "w").write(src)
    for rel, mods in ATTACH.items():
        ok = any(rel.startswith(pref) and a.profile in profs for pref, profs in REAL_IN.items())
        p = os.path.join(out, rel)
        if not ok or not os.path.exists(p):
            continue
        report["real_files"].append(rel)
        extra = ""
        for h in mods:
            hp = os.path.join(HARNESS, h)
            # harness files named *_r.rs use the real crypto types: profile R only; all others: every other profile
            if h.endswith("_r.rs") != (a.profile == "R"):
                continue
            if os.path.exists(hp):
                relp = "../" * (rel.count("/")) + "_harness/" + h
                extra += '\n#[cfg(%s)]\n#[path = "%s"]\npub(crate) mod kani_%s;\n' % (guard, relp, h[:-3])
                report["attached"].append((rel, h))
        if extra:
            with open(p, "a") as f:
                f.write(extra)
    # cfg(kani) items that must live inside a real module (struct-literal constructors, re-exports)
    apdir = os.path.join(HARNESS, "append")
    for fn in sorted(os.listdir(apdir)) if os.path.isdir(apdir) else []:
        rel = fn.replace("__", "/")
        p = os.path.join(out, rel)
        ok = any(rel.startswith(pref) and a.profile in profs for pref, profs in REAL_IN.items())
        if a.profile == "R" and rel not in ("mempool/src/lib.rs",):
            ok = False  # the appended constructors serve the L-profile Core harnesses
        if ok and os.path.exists(p):
            with open(p, "a") as f:
                f.write("\n" + open(os.path.join(apdir, fn)).read())  # (cfg(kani) already rewritten to cfg(test) in replay mode)
            report["attached"].append((rel, "append/" + fn))
    import json
    json.dump(report, open(os.path.join(out, "overlay_report.json"), "w"), indent=1)
    print(json.dumps(report))


if __name__ == "__main__":
    main()

"""Per-property check specifications: which harnesses (Kani/CBMC over the real code) and which SMT
engines decide each property, at which tier, with which bounds."""
import os
import sys

sys.path.insert(0, os.path.dirname(os.path.abspath(__file__)))
from overlay import ATTACH  # noqa: E402

_MOD = {}
for rel, mods in ATTACH.items():
    crate = rel.split("/")[0]
    stem = os.path.basename(rel)[:-3]
    for m in mods:
        pref = "" if stem == "lib" else stem + "::"
        _MOD[m[:-3]] = (crate, pref + "kani_" + m[:-3])

COMMON_TB = [
    "Kani 0.68 / CBMC 6.11 / cadical (compiler front end, goto translation, SAT back end)",
    "kani/shims/kcoll: array-backed insertion-ordered HashMap/HashSet (cap 8) substituted for std::collections hash containers",
]
TB_L = COMMON_TB + [
    "kani/shims/tokio: sequential channels (unbounded FIFO), Sleep fired only by the harness, select! polling from a nondeterministic start index",
    "kani/shims/store: sequential in-memory map with read/write/notify_read",
    "kani/shims/network: SimpleSender/ReliableSender recording (address, bytes); ACK handles resolved by the harness",
    "kani/shims/crypto: ideal signatures (signature = (signer, digest)); 4-byte keys, 8-byte digests",
    "kani/shims/ed25519-dalek: abstract hash (xor-rotate mixing of the exact pre-image bytes); collision freedom assumed where stated",
    "kani/shims/async-recursion: identity attribute (call graph is acyclic)",
]


def H(mod, name, profile="L", tier="quick", **kw):
    crate, path = _MOD[mod]
    d = dict(name=path + "::" + name, short=name, profile=profile, tier=tier, pkg=kw.pop("pkg", crate))
    d.update(kw)
    return d


SPECS = {}

# --------------------------------------------------------------------------------------------- C17
SPECS["C17"] = dict(
    level="model_checking",
    technique="bounded symbolic execution of the real Committee::{quorum_threshold,stake} (Kani/CBMC, SAT) + bit-vector SMT query over the MIR arithmetic (z3, cvc5)",
    bounds="committees of exactly 1,2,3,4 (thorough: 5,7) authorities; stakes fully symbolic u32 incl. 0; total stake 1 <= n < 2^31; lookup key member or non-member",
    outside="more than 7 authorities (the sum loop); n >= 2^31 (excluded by the property)",
    trusted_base=COMMON_TB,
    assumptions=["total stake below 2^31 (stated in the property)"],
    harnesses=[
        H("config_h", "c17_quorum_k1", symbolic="stake[1]: u32, lookup key", asserts="3q>2n, q<=n-f, 2q>n+f, stake(member)=stake, stake(unknown)=0"),
        H("config_h", "c17_quorum_k2", symbolic="stake[2]: u32, lookup key", asserts="as k1"),
        H("config_h", "c17_quorum_k3", symbolic="stake[3]: u32, lookup key", asserts="as k1"),
        H("config_h", "c17_quorum_k4", symbolic="stake[4]: u32, lookup key", asserts="as k1"),
        H("config_h", "c17_same_k4", symbolic="stake[4]: u32, lookup key", asserts="consensus and mempool committees: same threshold, same stake()"),
        H("config_h", "c17_quorum_k5", tier="thorough", symbolic="stake[5]", asserts="as k1"),
        H("config_h", "c17_quorum_k7", tier="thorough", symbolic="stake[7]", asserts="as k1"),
        H("config_h", "c17_same_k7", tier="thorough", symbolic="stake[7]", asserts="as same_k4"),
    ],
)

# --------------------------------------------------------------------------------------------- C03
SPECS["C03"] = dict(
    level="model_checking",
    technique="bounded symbolic execution of the real Core::make_vote / process_block / local_timeout_round (Kani/CBMC, SAT)",
    bounds="all u64 rounds (below 2^64-1) for block, QC, TC, last_voted_round; TC of exactly 3 entries; committee 4 x stake 1",
    outside="TCs with other entry counts; rounds >= 2^63 in multi-step harnesses; real ed25519",
    trusted_base=TB_L,
    assumptions=["ideal signatures", "rounds below 2^63 (a certificate for a higher round needs a quorum of signatures)"],
    harnesses=[
        H("core_h", "c03_make_vote_no_tc", symbolic="last_voted_round, block.round, qc.round: u64; parent digest", asserts="vote <=> round>last_voted && qc.round+1==round; vote fields; last_voted_round update"),
        H("core_h", "c03_make_vote_tc", symbolic="last_voted_round, block.round, qc.round, tc.round, 3 high_qc rounds: u64", asserts="vote <=> round>last_voted && (qc.round+1==round || (tc.round+1==round && qc.round>=max hq))"),
    ],
)
# --------------------------------------------------------------------------------------------- C02
SPECS["C02"] = dict(
    level="model_checking",
    technique="bounded symbolic execution of the real Core::commit / Synchronizer::get_parent_block over a symbolic stored chain (Kani/CBMC, SAT)",
    bounds="chains of 1..4 blocks above genesis (thorough: 5) with arbitrary strictly increasing u64 rounds (< 2^62), any already-delivered prefix; real bincode (de)serialisation of the stored blocks",
    outside="longer chains; blocks with payload/TC (commit does not look at them); store failures",
    trusted_base=TB_L,
    assumptions=["abstract hash collision-free on the chain universe", "store holds every ancestor (representation invariant of process_block)"],
    harnesses=[
        H("core_h", "c02_commit_chain1", timeout=300, stubbing=True, symbolic="round of 1 block, delivered prefix", asserts="delivered sequence == undelivered chain suffix, oldest first; no duplicate; no genesis; idempotent"),
        H("core_h", "c02_commit_chain2", timeout=300, stubbing=True, symbolic="rounds of 2 blocks, delivered prefix j<2", asserts="as chain1"),
        H("core_h", "c02_commit_chain3", timeout=300, stubbing=True, symbolic="rounds of 3 blocks, delivered prefix j<3", asserts="as chain1"),
        H("core_h", "c02_commit_chain4", symbolic="rounds of 4 blocks, delivered prefix j<4", asserts="as chain1", timeout=600, stubbing=True),
    ],
)

SPECS["DBG"] = dict(harnesses=[H("core_h", "dbg_ser_de", timeout=120, need_cover=False, stubbing=True), H("core_h", "dbg_store_de", timeout=120, need_cover=False, stubbing=True)])

"""Per-property check specifications: which harnesses (Kani/CBMC over the real code) and which SMT
engines decide each property, at which tier, with which bounds."""
import os
import sys

sys.path.insert(0, os.path.dirname(os.path.abspath(__file__)))
from overlay import ATTACH  # noqa: E402

_MOD = {}
for rel, mods in ATTACH.items():
    crate = rel.split("/")[0]
    stem = os.path.basename(rel)[:-3]
    for m in mods:
        pref = "" if stem == "lib" else stem + "::"
        _MOD[m[:-3]] = (crate, pref + "kani_" + m[:-3])

COMMON_TB = [
    "Kani 0.68 / CBMC 6.11 / cadical (compiler front end, goto translation, SAT back end)",
    "kani/shims/kcoll: array-backed insertion-ordered HashMap/HashSet/VecDeque substituted for std::collections containers (capacity 4 entries / 8 queue slots; 8 entries in the L8 profile; 2 entries / 3 slots in profile S; overflow is a hard error reported as harness mismatch)",
]
TB_L = COMMON_TB + [
    "kani/shims/tokio: sequential channels (unbounded FIFO), Sleep fired only by the harness, select! polling from a nondeterministic start index",
    "kani/shims/store: sequential in-memory map with read/write/notify_read",
    "kani/shims/network: SimpleSender/ReliableSender recording (address, bytes); ACK handles resolved by the harness",
    "kani/shims/crypto: ideal signatures (signature = (signer, digest)); 4-byte keys, 8-byte digests",
    "kani/shims/ed25519-dalek: abstract hash (xor-rotate mixing of the exact pre-image bytes); collision freedom assumed where stated",
    "kani/shims/async-recursion: identity attribute (call graph is acyclic)",
    "kani/shims/bincode: same wire format as bincode 1.3 default options on serde's traits, errors without formatted messages",
    "kani/shims/bytes: Bytes as an owned vector; kani/shims/futures: real futures-util except an array-backed FuturesUnordered",
    "kani/overlay.py deasync: straight-line async fns of consensus/src/{core,synchronizer,messages,mempool}.rs lowered to plain functions (.await -> poll once, Pending = hard error)",
    "kani/shims/vwit: witness channel (every symbolic draw is kani::any(); replayed natively from VERIF_WITNESS)",
    "scripted store lookups (store::script_strict): asserted, never assumed",
]


def H(mod, name, profile="L", tier="quick", **kw):
    crate, path = _MOD[mod]
    d = dict(name=path + "::" + name, short=name, profile=profile, tier=tier, pkg=kw.pop("pkg", crate))
    d.update(kw)
    if d.get("features"):
        d["short"] = name + "__" + d["features"]
    return d


SPECS = {}
# properties whose check has been run to completion on the unchanged tree and is claimed in MANIFEST.json
READY = {"C01", "C02", "C03", "C04", "C05", "C07", "C08", "C09", "C10", "C11", "C15", "C16", "C17", "C18", "C19", "C20"}

# --------------------------------------------------------------------------------------------- C17
SPECS["C17"] = dict(
    level="model_checking",
    technique="bounded symbolic execution of the real Committee::{quorum_threshold,stake} (Kani/CBMC, SAT) + bit-vector SMT query over the MIR arithmetic (z3, cvc5)",
    bounds="committees of exactly 1,2,3,4 (thorough: 5,7) authorities; stakes fully symbolic u32 incl. 0; total stake 1 <= n < 2^31; lookup key member or non-member",
    outside="more than 7 authorities (the sum loop); n >= 2^31 (excluded by the property)",
    trusted_base=COMMON_TB,
    assumptions=["total stake below 2^31 (stated in the property)"],
    harnesses=[
        H("config_h", "c17_quorum_k1", symbolic="stake[1]: u32, lookup key", asserts="3q>2n, q<=n-f, 2q>n+f, stake(member)=stake, stake(unknown)=0"),
        H("config_h", "c17_quorum_k2", symbolic="stake[2]: u32, lookup key", asserts="as k1"),
        H("config_h", "c17_quorum_k3", symbolic="stake[3]: u32, lookup key", asserts="as k1"),
        H("config_h", "c17_quorum_k4", symbolic="stake[4]: u32, lookup key", asserts="as k1"),
        H("config_h", "c17_same_k4", symbolic="stake[4]: u32, lookup key", asserts="consensus and mempool committees: same threshold, same stake()"),
        H("config_h", "c17_quorum_k5", profile="L8", tier="thorough", symbolic="stake[5]", asserts="as k1"),
        H("config_h", "c17_quorum_k7", profile="L8", tier="thorough", symbolic="stake[7]", asserts="as k1"),
        H("config_h", "c17_same_k7", profile="L8", tier="thorough", symbolic="stake[7]", asserts="as same_k4"),
    ],
)

# --------------------------------------------------------------------------------------------- C03
SPECS["C03"] = dict(
    level="model_checking",
    technique="bounded symbolic execution of the real Core::make_vote / process_block / local_timeout_round (Kani/CBMC, SAT)",
    bounds="all u64 rounds (below 2^64-1) for block, QC, TC, last_voted_round; TC of exactly 3 entries; committee 4 x stake 1",
    outside="TCs with other entry counts; rounds >= 2^63 in multi-step harnesses; real ed25519",
    trusted_base=TB_L,
    assumptions=["ideal signatures", "rounds below 2^63 (a certificate for a higher round needs a quorum of signatures)"],
    harnesses=[
        H("core_h", "c03_make_vote_no_tc", symbolic="last_voted_round, block.round, qc.round: u64; parent digest", asserts="vote <=> round>last_voted && qc.round+1==round; vote fields; last_voted_round update"),
        H("core_h", "c03_make_vote_tc", symbolic="last_voted_round, block.round, qc.round, tc.round, 3 high_qc rounds: u64", asserts="vote <=> round>last_voted && (qc.round+1==round || (tc.round+1==round && qc.round>=max hq))"),
        H("core_h", "pb_consec_notc", stubbing=True, timeout=900, mem_gb=16, symbolic="node round/last_voted/high_qc, block round and author (u64/u8); stored 2-chain rounds 5,6", asserts="real process_block: vote on the wire <=> block.round==round && >last_voted && qc.round+1==block.round; sent to leader(round+1); last_voted_round update"),
        H("core_h", "pb_gap_tc", stubbing=True, timeout=900, mem_gb=16, symbolic="as pb_consec_notc + TC round and 3 high-QC rounds; stored 2-chain rounds 5,7", asserts="as above incl. the TC branch"),
        H("core2_h", "lt_local_timeout", stubbing=True, timeout=900, mem_gb=16, symbolic="node round/last_voted", asserts="real local_timeout_round raises last_voted_round to the current round"),
        H("core2_h", "lt_then_proposal", stubbing=True, timeout=1200, mem_gb=20, symbolic="node state, block", asserts="after a local timeout no proposal of that round is voted"),
        H("core2_h", "pb_two_proposals", tier="thorough", stubbing=True, timeout=3000, mem_gb=30, symbolic="two blocks (rounds, authors) on the same parent, node last_voted/high_qc", asserts="two consecutive process_block calls: at most one vote per round, vote rounds strictly increase (equivocating proposals)"),
    ],
)
# --------------------------------------------------------------------------------------------- C02
SPECS["C02"] = dict(
    level="model_checking",
    technique="bounded symbolic execution of the real Core::commit / Synchronizer::get_parent_block over a symbolic stored chain (Kani/CBMC, SAT)",
    bounds="chains of 1..4 blocks above genesis (thorough: 5) with arbitrary strictly increasing u64 rounds (< 2^62), any already-delivered prefix; real bincode (de)serialisation of the stored blocks",
    outside="longer chains; blocks with payload/TC (commit does not look at them); store failures",
    trusted_base=TB_L,
    assumptions=["abstract hash collision-free on the chain universe", "store holds every ancestor (representation invariant of process_block)"],
    harnesses=[
        H("core_h", "c02_n%d_p%d_j%d" % (n, pat, j), tier=("quick" if (n <= 2 or (n == 3 and (pat in (0, 7) or (pat, j) in ((3, 0), (5, 1))))) else "thorough"), timeout=900, mem_gb=16, stubbing=True,
          symbolic="none of the rounds (they decide the walk's control flow); chain of %d blocks, gap pattern %s (gap %d), delivered prefix %d" % (n, bin(pat), 2 + (pat + j) % 3, j),
          asserts="delivered sequence == undelivered chain suffix, oldest first; no duplicate; no genesis placeholder; second commit delivers nothing")
        for n in (1, 2, 3, 4) for pat in range(2 ** n) for j in range(n)
    ] + [
        H("core_h", "c02_commit_sym2", tier="thorough", timeout=3600, mem_gb=40, stubbing=True, cost=100,
          symbolic="both rounds of a 2-chain (any r0 < r1 < 2^62) and the delivered prefix", asserts="as above"),
    ],
)
# --------------------------------------------------------------------------------------------- C19
SPECS["C19"] = dict(
    level="model_checking",
    technique="bounded symbolic execution of the real Aggregator/QCMaker/TCMaker with a ghost stake accumulator (Kani/CBMC, SAT)",
    bounds="committee of 4 with fully symbolic u32 stakes (total < 2^31); per maker 6 concrete author sequences of 4..5 votes/timeouts (with and without duplicates) under fully symbolic stakes and high-QC rounds; aggregator: one concrete 7-vote schedule over 2 blocks x 2 rounds, equal stakes",
    outside="longer sequences, more than 4 authorities, more than 2 digests/rounds in one run; real ed25519",
    trusted_base=TB_L,
    assumptions=["ideal signatures", "abstract hash collision-free on the 4 vote digests of a run"],
    harnesses=[
        H("aggregator_h", "c19_qcmaker_0123_at1", timeout=900, symbolic="4 stakes (u32, any total < 2^31 with that crossing point), block digest, round; authors 0,1,2,3; quorum crossed at the 1st", asserts="every step: Ok(None) before, the QC exactly at the crossing (entries = the distinct authors so far, verifies), Ok(None) after, AuthorityReuse for repeats"),
        H("aggregator_h", "c19_qcmaker_0123_at2", timeout=900, symbolic="4 stakes (u32, any total < 2^31 with that crossing point), block digest, round; quorum at the 2nd", asserts="every step: Ok(None) before, the QC exactly at the crossing (entries = the distinct authors so far, verifies), Ok(None) after, AuthorityReuse for repeats"),
        H("aggregator_h", "c19_qcmaker_0123_at3", timeout=900, symbolic="4 stakes (u32, any total < 2^31 with that crossing point), block digest, round; quorum at the 3rd", asserts="every step: Ok(None) before, the QC exactly at the crossing (entries = the distinct authors so far, verifies), Ok(None) after, AuthorityReuse for repeats"),
        H("aggregator_h", "c19_qcmaker_0123_at4", timeout=900, symbolic="4 stakes (u32, any total < 2^31 with that crossing point), block digest, round; quorum at the 4th", asserts="every step: Ok(None) before, the QC exactly at the crossing (entries = the distinct authors so far, verifies), Ok(None) after, AuthorityReuse for repeats"),
        H("aggregator_h", "c19_qcmaker_203_never", timeout=900, symbolic="4 stakes (u32, any total < 2^31 with that crossing point), block digest, round; authors 2,0,3; quorum never reached", asserts="every step: Ok(None) before, the QC exactly at the crossing (entries = the distinct authors so far, verifies), Ok(None) after, AuthorityReuse for repeats"),
        H("aggregator_h", "c19_qcmaker_dup_11230_at3", timeout=900, symbolic="4 stakes (u32, any total < 2^31 with that crossing point), block digest, round; authors 1,1,2,3,0 (duplicate), quorum at the 3rd distinct", asserts="every step: Ok(None) before, the QC exactly at the crossing (entries = the distinct authors so far, verifies), Ok(None) after, AuthorityReuse for repeats"),
        H("aggregator_h", "c19_qcmaker_dup_30332_at2", timeout=900, symbolic="4 stakes (u32, any total < 2^31 with that crossing point), block digest, round; authors 3,0,3,3,2, quorum at the 2nd distinct", asserts="every step: Ok(None) before, the QC exactly at the crossing (entries = the distinct authors so far, verifies), Ok(None) after, AuthorityReuse for repeats"),
        H("aggregator_h", "c19_qcmaker_dup_2201_at3", timeout=900, symbolic="4 stakes (u32, any total < 2^31 with that crossing point), block digest, round; authors 2,2,0,1, quorum at the 3rd distinct", asserts="every step: Ok(None) before, the QC exactly at the crossing (entries = the distinct authors so far, verifies), Ok(None) after, AuthorityReuse for repeats"),
        H("aggregator_h", "c19_tcmaker_3120_at2", timeout=900, symbolic="4 stakes, high-QC rounds, round; authors 3,1,2,0; quorum at the 2nd", asserts="as the QC makers; every TC entry carries its author's own high-QC round"),
        H("aggregator_h", "c19_tcmaker_3120_at3", timeout=900, symbolic="4 stakes, high-QC rounds, round; quorum at the 3rd", asserts="as the QC makers; every TC entry carries its author's own high-QC round"),
        H("aggregator_h", "c19_tcmaker_dup_0221_at3", timeout=900, symbolic="4 stakes, high-QC rounds, round; authors 0,2,2,1; quorum at the 3rd distinct", asserts="as the QC makers; every TC entry carries its author's own high-QC round"),
        H("aggregator_h", "c19_qcmaker_3210_at2", tier="thorough", timeout=1200, symbolic="4 stakes (u32), digest/high-QC rounds, round; authors 3,2,1,0; quorum at the 2nd", asserts="as the quick-tier maker harnesses"),
        H("aggregator_h", "c19_qcmaker_3210_at4", tier="thorough", timeout=1200, symbolic="4 stakes (u32), digest/high-QC rounds, round; authors 3,2,1,0; quorum at the 4th", asserts="as the quick-tier maker harnesses"),
        H("aggregator_h", "c19_qcmaker_1302_at1", tier="thorough", timeout=1200, symbolic="4 stakes (u32), digest/high-QC rounds, round; authors 1,3,0,2; quorum at the 1st", asserts="as the quick-tier maker harnesses"),
        H("aggregator_h", "c19_qcmaker_dup_01012_at3", tier="thorough", timeout=1200, symbolic="4 stakes (u32), digest/high-QC rounds, round; authors 0,1,0,1,2; quorum at the 3rd distinct", asserts="as the quick-tier maker harnesses"),
        H("aggregator_h", "c19_qcmaker_dup_after_0123_3_at3", tier="thorough", timeout=1200, symbolic="4 stakes (u32), digest/high-QC rounds, round; authors 0,1,2,3,3: duplicate after the certificate", asserts="as the quick-tier maker harnesses"),
        H("aggregator_h", "c19_qcmaker_dup_00112_never", tier="thorough", timeout=1200, symbolic="4 stakes (u32), digest/high-QC rounds, round; authors 0,0,1,1,2; quorum never reached", asserts="as the quick-tier maker harnesses"),
        H("aggregator_h", "c19_tcmaker_0123_at1", tier="thorough", timeout=1200, symbolic="4 stakes (u32), digest/high-QC rounds, round; timeouts 0,1,2,3; quorum at the 1st", asserts="as the quick-tier maker harnesses"),
        H("aggregator_h", "c19_tcmaker_0123_at4", tier="thorough", timeout=1200, symbolic="4 stakes (u32), digest/high-QC rounds, round; timeouts 0,1,2,3; quorum at the 4th", asserts="as the quick-tier maker harnesses"),
        H("aggregator_h", "c19_tcmaker_dup_3310_at2", tier="thorough", timeout=1200, symbolic="4 stakes (u32), digest/high-QC rounds, round; timeouts 3,3,1,0; quorum at the 2nd distinct", asserts="as the quick-tier maker harnesses"),
        H("aggregator_h", "c19_tcmaker_21_never", tier="thorough", timeout=1200, symbolic="4 stakes (u32), digest/high-QC rounds, round; timeouts 2,1; never", asserts="as the quick-tier maker harnesses"),
        H("aggregator_h", "c19_aggregator_no_mixing", symbolic="none (7 votes interleaved over 2 blocks x 2 rounds, equal stakes)", asserts="a QC holds only votes cast for its own (block, round); formed at the third distinct vote; verifies"),
        H("aggregator_h", "c19_cleanup_keep", symbolic="none", asserts="cleanup(c<=r) keeps the partial quorum of round r"),
        H("aggregator_h", "c19_cleanup_drop", symbolic="none", asserts="cleanup(c>r) drops it"),
        H("core2_h", "hv_quorum", stubbing=True, timeout=1200, mem_gb=20, symbolic="vote round, node state", asserts="Core level: the third distinct valid vote assembles the QC exactly once; acted upon only then"),
        H("core2_h", "hv_replayed_quorum", stubbing=True, timeout=1200, mem_gb=20, symbolic="node last_voted; state right after assembling the QC for (h,7) at the leader of round 8; a full quorum of valid votes for (h,7) is replayed", asserts="no second certificate for the same block and round (no second proposal request), round/high_qc unchanged"),
        H("core2_h", "hv_single_self", stubbing=True, timeout=900, mem_gb=16, symbolic="vote naming the collecting node itself as author, validity, round", asserts="only VERIFIED votes are aggregated: an invalid self-authored vote never enters the aggregator"),
        H("core2_h", "hv_single", stubbing=True, timeout=900, mem_gb=16, symbolic="vote of member 1, validity, round", asserts="only verified votes are aggregated"),
        H("core2_h", "hto_single_self", stubbing=True, timeout=900, mem_gb=16, symbolic="timeout naming the collecting node itself as author", asserts="only verified timeouts are aggregated"),
        H("core2_h", "hto_single", stubbing=True, timeout=900, mem_gb=16, symbolic="timeout of member 1, validity, round", asserts="only verified timeouts are aggregated"),
    ],
)

# --------------------------------------------------------------------------------------------- C04
SPECS["C04"] = dict(
    level="model_checking",
    technique="bounded symbolic execution of the real Block/Vote/QC/Timeout/TC::verify against a reference predicate, ideal signatures (Kani/CBMC, SAT)",
    bounds="committee of 4 with fully symbolic u32 stakes (total < 2^31, zero stakes allowed); certificates with 2..4 entries, each signer symbolic among the 4 members and one non-member (repeats possible), each signature symbolically valid / by another signer / over another digest; all rounds and digests symbolic",
    outside="real ed25519 arithmetic (verify_strict, batch verification) - the ideal-signature shim's contract; certificates with more than 4 entries; committees of other sizes; effect of a rejected message on later behaviour is checked only at handler level where listed",
    trusted_base=TB_L,
    assumptions=["ideal signatures: a signature is valid iff it was made by that signer over exactly that digest", "abstract hash collision-free between the altered and the original digest"],
    harnesses=[
        H("messages_h", "c04_qc_verify_k2", symbolic="4 stakes; 2 x (signer, signature validity kind); hash, round", asserts="Ok <=> all signers members with stake, pairwise distinct, stake sum >= threshold, every signature valid for this QC's digest"),
        H("messages_h", "c04_qc_verify_k3", symbolic="4 stakes; 3 signers", asserts="as k2"),
        H("messages_h", "c04_qc_verify_k4", symbolic="4 stakes; 4 signers", asserts="as k2", timeout=900),
        H("messages_h", "c04_tc_verify_k3", symbolic="4 stakes; 3 x (signer, validity, high-QC round); round", asserts="as QC, each signature over (round, that entry's high-QC round)"),
        H("messages_h", "c04_tc_verify_k4", symbolic="4 stakes; 4 entries", asserts="as k3", timeout=900),
        H("messages_h", "c04_vote_verify", symbolic="4 stakes; author (member or not), validity", asserts="Ok <=> author has stake and signature valid for this vote's digest"),
        H("messages_h", "c04_timeout_verify_genesis", symbolic="4 stakes; author, validity; genesis high QC", asserts="Ok <=> author has stake, signature valid"),
        H("messages_h", "c04_timeout_verify_qc", symbolic="4 stakes; author, validity, embedded 3-vote QC", asserts="Ok <=> author has stake, signature valid, embedded QC valid"),
        H("messages_h", "c04_block_verify_genesis", symbolic="4 stakes; author, validity; genesis QC", asserts="Ok <=> author has stake, signature valid"),
        H("messages_h", "c04_block_verify_notc", symbolic="4 stakes; author, validity, embedded QC", asserts="Ok <=> author has stake, signature valid, QC genesis or valid"),
        H("messages_h", "c04_block_verify_tc", symbolic="as notc + 3-entry TC", asserts="additionally TC valid", timeout=900),
        H("messages_h", "c04_block_verify_genesis_tc", symbolic="genesis QC + 3-entry TC", asserts="the TC is verified whatever the embedded QC is", timeout=900),
        H("core2_h", "hp_genesis_empty_tc", stubbing=True, timeout=900, mem_gb=16, symbolic="TC round", asserts="leader proposal with genesis QC and an empty TC: rejected, nothing changes"),
        H("core2_h", "hp_bad_block_sig", stubbing=True, timeout=1200, mem_gb=20, symbolic="proposal with an invalid own signature, node state", asserts="rejected; round, last_voted, high_qc, timer, wire, commit, proposer, mempool, store, aggregator untouched"),
        H("core2_h", "hp_bad_qc_vote", stubbing=True, timeout=1200, mem_gb=20, symbolic="proposal whose QC has one invalid vote", asserts="as above"),
        H("core2_h", "hp_qc_below_quorum", stubbing=True, timeout=1200, mem_gb=20, symbolic="proposal whose QC has 2 votes", asserts="as above"),
        H("core2_h", "hp_qc_repeated_signer", stubbing=True, timeout=1200, mem_gb=20, symbolic="proposal whose QC repeats a signer", asserts="as above"),
        H("core2_h", "hv_single", stubbing=True, timeout=900, mem_gb=16, symbolic="vote author/validity/round", asserts="invalid or non-member vote: nothing changes"),
        H("core2_h", "hv_single_nonmember", stubbing=True, timeout=900, mem_gb=16, symbolic="vote of a non-member, validity, round", asserts="rejected, nothing changes"),
        H("core2_h", "htc_bad_sig", stubbing=True, timeout=900, mem_gb=16, symbolic="TC with a signature made for another round", asserts="rejected, nothing changes"),
        H("core2_h", "htc_below_quorum", stubbing=True, timeout=900, mem_gb=16, symbolic="TC with 2 entries", asserts="rejected, nothing changes"),
        H("core2_h", "hv_single_self", stubbing=True, timeout=900, mem_gb=16, symbolic="vote naming the node itself as author, validity, round", asserts="verified like any other: an invalid one is rejected, nothing changes"),
        H("core2_h", "hto_single", stubbing=True, timeout=900, mem_gb=16, symbolic="timeout of member 1: validity, round; node state", asserts="real handle_timeout: invalid => rejected, nothing changes; valid single timeout => no round change, nothing sent"),
        H("core2_h", "hto_single_self", stubbing=True, timeout=900, mem_gb=16, symbolic="timeout naming the node itself as author", asserts="as hto_single"),
        H("core2_h", "hto_single_nonmember", stubbing=True, timeout=900, mem_gb=16, symbolic="timeout of a non-member", asserts="rejected, nothing changes"),
        H("core2_h", "hto_bad_qc", stubbing=True, timeout=900, mem_gb=16, symbolic="correctly signed timeout embedding a vote-less non-genesis QC (round symbolic)", asserts="rejected: the embedded QC never reaches process_qc; nothing changes"),
        H("core2_h", "hto_bad_qc_self", stubbing=True, timeout=900, mem_gb=16, symbolic="as hto_bad_qc, naming the node itself as author", asserts="as hto_bad_qc"),
        H("core2_h", "hp_bad_sig_payload_missing", stubbing=True, timeout=1200, mem_gb=20, symbolic="leader proposal with an invalid signature whose batch is not stored; node state", asserts="rejected before the payload is looked at: not parked, mempool not asked, nothing changes"),
        H("core2_h", "hp_bad_qc_payload_missing", stubbing=True, timeout=1200, mem_gb=20, symbolic="as above with one invalid QC vote", asserts="as above"),
    ],
)

# --------------------------------------------------------------------------------------------- C05
SPECS["C05"] = dict(
    level="model_checking",
    technique="bounded symbolic execution of the real Core::process_block / handle_proposal / handle_vote / handle_tc against the 2-chain commit rule (Kani/CBMC, SAT)",
    bounds="stored 2-chain genesis<-b0<-b1 with concrete round pairs (5,6) consecutive, (5,7) gapped, (1,2) first blocks, delivered watermark concrete; new block round/author/TC and node state (round, last_voted_round, high_qc) fully symbolic u64; votes, TCs with symbolic rounds",
    outside="longer ancestor chains in the same step (C02 covers the ancestor walk); other concrete round pairs; payloads",
    trusted_base=TB_L,
    assumptions=["ideal signatures", "abstract hash collision-free on the 3 blocks of a run", "rounds below 2^62"],
    harnesses=[
        H("core_h", "pb_consec_notc", stubbing=True, timeout=900, mem_gb=16, symbolic="node state, block round/author", asserts="commit channel gets exactly b0 iff b0.round+1==b1.round and b0 not yet delivered"),
        H("core_h", "pb_gap_notc", stubbing=True, timeout=900, mem_gb=16, symbolic="as above, rounds 5,7", asserts="a round gap between b0 and b1 never commits"),
        H("core_h", "pb_gap_b1tc_notc", stubbing=True, timeout=900, mem_gb=16, symbolic="as pb_gap_notc; the stored b1 (round 7) carries a TC of round 6", asserts="a TC on b1 never stands in for round adjacency: no commit"),
        H("core_h", "pb_consec_delivered_notc", stubbing=True, timeout=900, mem_gb=16, symbolic="as above, b0 already delivered", asserts="nothing delivered twice"),
        H("core_h", "pb_first_notc", stubbing=True, timeout=900, mem_gb=16, symbolic="as above, rounds 1,2 above genesis", asserts="first commit delivers block 1 only (no genesis)"),
        H("core_h", "pb_gap3_notc", tier="thorough", stubbing=True, timeout=1200, mem_gb=16, symbolic="as pb_consec_notc; stored rounds 5,8 (gap of 3)", asserts="as pb_consec_notc (vote rule, commit rule, no round/high_qc change)"),
        H("core_h", "pb_gap_delivered_tc", tier="thorough", stubbing=True, timeout=1200, mem_gb=16, symbolic="as pb_consec_notc; stored rounds 5,7, b0 already delivered, proposal with TC", asserts="as pb_consec_notc (vote rule, commit rule, no round/high_qc change)"),
        H("core_h", "pb_first_gap_tc", tier="thorough", stubbing=True, timeout=1200, mem_gb=16, symbolic="as pb_consec_notc; stored rounds 1,3 above genesis, proposal with TC", asserts="as pb_consec_notc (vote rule, commit rule, no round/high_qc change)"),
        H("core2_h", "hv_single", stubbing=True, timeout=900, mem_gb=16, symbolic="vote round/author/validity, node state", asserts="a vote never causes a commit"),
        H("core2_h", "htc_valid", stubbing=True, timeout=900, mem_gb=16, symbolic="TC round, node state", asserts="a TC never causes a commit"),
        H("core2_h", "hp_valid", stubbing=True, timeout=1200, mem_gb=20, symbolic="proposal round/author, node last_voted/high_qc (current round 7)", asserts="a valid proposal over a consecutive certified 2-chain commits its head exactly once"),
        H("core2_h", "hp_bad_qc_vote", stubbing=True, timeout=1200, mem_gb=20, symbolic="as hp_valid with one invalid QC signature", asserts="an uncertified proposal commits nothing"),
        H("core2_h", "hp_bad_qc_payload_missing", stubbing=True, timeout=1200, mem_gb=20, symbolic="uncertified proposal (one invalid QC vote) whose batch is not stored", asserts="never parked at the payload waiter (a parked block re-enters through the loop-back path, which trusts it and would commit on the forged QC)"),
    ],
)
# --------------------------------------------------------------------------------------------- C09
SPECS["C09"] = dict(
    level="model_checking",
    technique="bounded symbolic execution of the real RRLeaderElector::get_leader and of the Core handlers' leader checks / proposal requests (Kani/CBMC, SAT)",
    bounds="committees of 4 (thorough: 3,5,7 via profile L8) built in every insertion order, round any u64; handler steps from arbitrary node states with symbolic message rounds/authors",
    outside="the Proposer task itself (a harness over the lowered make_block, kani/harness/proposer_h.rs, ran out of 16 GB after 700 s and is not part of the check), so 'an honest authority never signs two proposals for one round' is decided only as 'the core requests at most one proposal per round'; committees above 7",
    trusted_base=TB_L,
    assumptions=["ideal signatures", "rounds below 2^62 in handler harnesses"],
    harnesses=[
        H("leader_h", "c09_leader_n4", symbolic="insertion order (24 permutations, symbolic), round u64", asserts="leader independent of insertion order; == sorted key [round mod n]; n consecutive rounds cover every authority"),
        H("core2_h", "hp_valid", stubbing=True, timeout=1200, mem_gb=20, symbolic="proposal round/author (leader or not), node state", asserts="a block of a non-leader is rejected with no effect; votes go to leader(round+1)"),
        H("core2_h", "hv_quorum", stubbing=True, timeout=1200, mem_gb=20, symbolic="node last_voted/high_qc; third vote of round 7 at the leader of round 8", asserts="exactly one Make(round+1) when this node leads round+1, only after the round increased; a late fourth vote requests nothing"),
        H("core2_h", "hv_quorum_future_nonleader", stubbing=True, timeout=1200, mem_gb=20, symbolic="node last_voted/high_qc; votes of future round 9 at a non-leader in round 5", asserts="round jumps to 10 on the assembled QC; no proposal request"),
        H("core2_h", "htc_valid", stubbing=True, timeout=900, mem_gb=16, symbolic="TC round, node state", asserts="exactly one Make(round+1, tc) iff this node leads round+1"),
        H("core2_h", "hv_single", stubbing=True, timeout=900, mem_gb=16, symbolic="vote", asserts="no proposal request without entering a new round"),
        H("core2_h", "hp_wrong_leader_payload_missing", stubbing=True, timeout=1200, mem_gb=20, symbolic="correctly signed, certified proposal by a member that does not lead the round, whose batch is not stored; node state", asserts="rejected as a wrong-leader proposal BEFORE it can be parked for its payload (a parked block re-enters through the loop-back path, which never checks the leader)"),
        H("leader_h", "c09_leader_n3", profile="L8", tier="thorough", symbolic="3 keys", asserts="as n4"),
        H("leader_h", "c09_leader_n5", profile="L8", tier="thorough", symbolic="5 keys", asserts="as n4", timeout=1800),
    ],
)
# --------------------------------------------------------------------------------------------- C10
SPECS["C10"] = dict(
    level="model_checking",
    technique="bounded symbolic execution of the real Core handlers against the pacemaker rules (Kani/CBMC, SAT)",
    bounds="one handler step (proposal with 3-vote QC, vote, 3 votes forming a QC, TC, local timeout) from an arbitrary node state satisfying the representation invariant; all rounds symbolic u64 below 2^62",
    outside="multi-step histories beyond the listed 2- and 3-step harnesses; timeouts carrying a non-genesis high QC (wire layout fixed to the genesis shape)",
    trusted_base=TB_L,
    assumptions=["ideal signatures", "representation invariant: round>=1, last_voted_round<=round, high_qc.round<round"],
    harnesses=[
        H("core2_h", "hp_valid", stubbing=True, timeout=1200, mem_gb=20, symbolic="proposal round/author, node last_voted/high_qc; current round 7", asserts="round' = max(round, qc.round+1); high_qc' = max; timer reset iff advanced; never decreases"),
        H("core2_h", "hp_valid_behind", stubbing=True, timeout=1200, mem_gb=20, symbolic="as hp_valid, current round 3 (behind the proposal's QC)", asserts="enters round 7 on the QC's evidence, timer reset"),
        H("core2_h", "hp_valid_ahead", stubbing=True, timeout=1200, mem_gb=20, symbolic="as hp_valid, current round 9 (ahead)", asserts="round and timer unchanged"),
        H("core2_h", "hp_valid_tc", stubbing=True, timeout=1200, mem_gb=20, symbolic="proposal round, node last_voted/high_qc; proposal carries QC(6) and TC(8), node in round 3", asserts="round' = 9 on the TC's evidence AND high_qc' = max(high_qc, 6): the QC of a TC-carrying proposal is not lost"),
        H("core2_h", "hp_valid_tc_stale", stubbing=True, timeout=1200, mem_gb=20, symbolic="as hp_valid_tc, node already in round 12 (delayed proposal from an earlier view change)", asserts="the round never decreases (stays 12); high_qc' = max(high_qc, 6); no vote"),
        H("core2_h", "hv_single", stubbing=True, timeout=900, mem_gb=16, symbolic="vote, node state", asserts="no round/high_qc change without a certificate"),
        H("core2_h", "hv_quorum", stubbing=True, timeout=1200, mem_gb=20, symbolic="node last_voted/high_qc", asserts="round' = r+1 exactly when the QC for r is assembled; high_qc' = max; timer reset; Make carries high_qc"),
        H("core2_h", "hv_quorum_future_nonleader", stubbing=True, timeout=1200, mem_gb=20, symbolic="node last_voted/high_qc", asserts="as hv_quorum for a future round"),
        H("core2_h", "htc_valid", stubbing=True, timeout=900, mem_gb=16, symbolic="TC round, node state", asserts="round' = tc.round+1 iff tc.round >= round; stale TC ignored; high_qc untouched"),
        H("core2_h", "htc_bad_sig", stubbing=True, timeout=900, mem_gb=16, symbolic="TC with a transplanted signature", asserts="invalid TC: no round change"),
        H("core2_h", "lt_local_timeout", stubbing=True, timeout=900, mem_gb=16, symbolic="node state", asserts="Timeout on the wire carries round == current round and high_qc == node's high_qc; round unchanged"),
        H("core_h", "pb_consec_tc", stubbing=True, timeout=900, mem_gb=16, symbolic="block incl. TC, node state", asserts="process_block alone never moves round or high_qc"),
    ],
)

TB_R = COMMON_TB + [
    "kani/shims/tokio, store, network (as profile L)",
    "kani/shims/ed25519-dalek: abstract hash that records the exact pre-image; ideal compile-level signature model (never claimed)",
    "REAL in this profile: crypto/src/lib.rs, base64, serde impls, bincode, 32/64-byte key/digest/signature types",
    "core::str::from_utf8 stubbed to accept (base64 text is ASCII by construction) in the round-trip harnesses",
]
# --------------------------------------------------------------------------------------------- C20
SPECS["C20"] = dict(
    level="model_checking",
    technique="bounded symbolic execution of the real digest() functions with a pre-image-recording hash, and of real bincode round trips (Kani/CBMC, SAT)",
    bounds="two arbitrary blocks with 0,1,2 payload digests each (equal lengths: injectivity; lengths 0/1, 1/2: separation); arbitrary votes, QCs, timeouts; all 32-byte fields and u64 rounds fully symbolic; Vote and Timeout round trips through the REAL bincode and base64 key encoding; Block (1 payload digest, 1-vote QC, 1-entry TC) round trip through the bincode shim (through the real bincode it ran out of 30 GB after 53 min and is not part of the check)",
    outside="SHA-512/256 collision resistance (assumed: equal digests only for equal pre-images); payloads above 2; Block round trip through the real bincode crate (only through the shim); blocks with more than 1 payload digest / 1 QC vote / 1 TC entry in the round trip",
    trusted_base=TB_R + ["kani/shims/bincode + ideal crypto types (c20_block_roundtrip_l only): same wire layout as bincode 1.3 default options on serde's traits"],
    assumptions=["the real hash is collision resistant: digests coincide only if pre-images do"],
    harnesses=[
        H("messages_r", "c20_block_inj_0_0", profile="R", timeout=900, symbolic="2 blocks, no payload: author, round, parent (32+8+32 bytes each)", asserts="equal pre-images => equal author, round, payload, parent; pre-image lengths of block / vote / timeout pairwise different"),
        H("messages_r", "c20_block_inj_1_1", profile="R", timeout=900, symbolic="2 blocks, 1 payload digest each", asserts="as 0_0"),
        H("messages_r", "c20_block_inj_2_2", profile="R", timeout=1200, symbolic="2 blocks, 2 payload digests each", asserts="as 0_0"),
        H("messages_r", "c20_block_len_0_1", profile="R", timeout=900, symbolic="blocks with 0 and 1 payload digests", asserts="pre-images differ"),
        H("messages_r", "c20_block_len_1_2", profile="R", timeout=900, symbolic="blocks with 1 and 2 payload digests", asserts="pre-images differ"),
        H("messages_r", "c20_vote_qc_timeout", profile="R", timeout=900, symbolic="2 votes, 2 timeouts", asserts="vote/QC digest binds (block, round); QC digest == digest its votes sign; timeout digest binds (round, high-QC round); kinds separated"),
        H("messages_r", "c20_vote_roundtrip", profile="R", timeout=900, mem_gb=20, stubbing=True, symbolic="vote fields", asserts="real bincode serialize->deserialize keeps fields and digest"),
        H("messages_h", "c20_block_roundtrip_l", timeout=900, mem_gb=16, symbolic="block fields, 1 payload digest, 1-vote QC, 1-entry TC (profile L: 4-byte keys, 8-byte digests, bincode shim with the same wire layout)", asserts="serialize->deserialize keeps every field and the digest (the store / sync path encoding)"),
        H("messages_r", "c20_timeout_roundtrip", profile="R", timeout=1200, mem_gb=20, stubbing=True, symbolic="timeout fields", asserts="real bincode round trip keeps fields and digest"),
    ],
)
# --------------------------------------------------------------------------------------------- C18 (encodings only)
SPECS["C18"] = dict(
    level="model_checking",
    technique="bounded symbolic execution of the real key/signature encoders over the real base64 crate, and of the real Signature::{new,verify,verify_batch} wrappers over an ideal signature primitive (Kani/CBMC, SAT)",
    bounds="every 32-byte public key and every 64-byte secret key (encode -> decode), every (part1, part2) signature value (flatten); batches of 0, 1 and 3 members with every key / signature / digest byte symbolic (wrapper logic over the ideal primitive)",
    outside="PARTIAL CLAIM: ed25519 itself (sign/verify soundness, bit-flip rejection, batch==individual INSIDE the primitive) is NOT decided - curve arithmetic and SHA-512 are out of reach of bit-blasting; sign/verify/batch are decided only for the first-party wrappers over the ideal primitive (signature = signer key || message; 32-byte strings ending in 0xFF model encodings that are not curve points); batches above 3; secret-key round trip (thorough); JSON key/committee files (serde_json, file I/O)",
    trusted_base=TB_R,
    assumptions=[],
    harnesses=[
        H("crypto_r", "c18_pk_roundtrip", profile="R", pkg="crypto", stubbing=True, timeout=900, mem_gb=20, symbolic="32 key bytes", asserts="decode_base64(encode_base64(k)) == k; text length 44"),
        H("crypto_r", "c18_signature_layout", profile="R", pkg="crypto", symbolic="64 signature bytes", asserts="flatten() == part1 || part2"),
        H("crypto_r", "c18_sk_roundtrip", profile="R", pkg="crypto", stubbing=True, timeout=900, mem_gb=20, symbolic="64 secret key bytes", asserts="decode_base64(encode_base64(k)) == k; text length 88"),
        H("crypto_r", "c18_pk_roundtrip_head", profile="R", pkg="crypto", stubbing=True, timeout=900, mem_gb=16, symbolic="key bytes 0..6 (others zero)", asserts="decode_base64(encode_base64(k)) == k; text length 44"),
        H("crypto_r", "c18_pk_roundtrip_mid", profile="R", pkg="crypto", stubbing=True, timeout=900, mem_gb=16, symbolic="key bytes 13..19", asserts="as head"),
        H("crypto_r", "c18_pk_roundtrip_tail", profile="R", pkg="crypto", stubbing=True, timeout=900, mem_gb=16, symbolic="key bytes 26..32 (the padded tail)", asserts="as head"),
        H("crypto_r", "c18_batch_equiv_k0", profile="R", pkg="crypto", stubbing=True, timeout=900, symbolic="digest; empty batch", asserts="Signature::verify_batch accepts exactly when every member verifies individually (IDEAL primitive: wrapper logic only)"),
        H("crypto_r", "c18_batch_equiv_k1", profile="R", pkg="crypto", stubbing=True, timeout=900, symbolic="digest, 1 (key, signature) pair: all 96 bytes", asserts="as k0"),
        H("crypto_r", "c18_batch_equiv_k3", profile="R", pkg="crypto", stubbing=True, timeout=1200, mem_gb=20, symbolic="digest, 3 (key, signature) pairs: all bytes, incl. keys that do not parse, any position", asserts="as k0"),
        H("crypto_r", "c18_sign_verify_ideal", profile="R", pkg="crypto", stubbing=True, timeout=900, symbolic="secret seed, public key, 2 digests, another key", asserts="Signature::new(d, sk).verify(d, pk) holds; fails for another digest / another key (IDEAL primitive)"),
    ],
)

# --------------------------------------------------------------------------------------------- C11
SPECS["C11"] = dict(
    level="model_checking",
    technique="bounded symbolic execution of the real BatchMaker::run loop (lowered with a synchronous select) and BatchMaker::seal (Kani/CBMC, SAT), default and benchmark builds",
    bounds="run loop: 5 event schedules of 3-5 events (arrivals of 0..12-byte transactions incl. empty, exact-threshold and oversize ones; timer expiries on empty and non-empty batches; batch_size 8/10; both select! start branches); seal: open batches of 1..3 transactions; contents fully symbolic; 3 peers",
    outside="schedules and sizes other than the listed ones (sizes decide the loop's control flow and are concrete); a transaction and the timer becoming ready in the same step; the hash function itself (abstract hash recording its pre-image; digest binding is C20); batches in the Processor other than the two sizes listed; real time (the timer fires when the harness says so)",
    trusted_base=TB_L,
    assumptions=[],
    harnesses=[
        H("batch_maker_h", "c11_seal_4_6", stubbing=True, timeout=900, mem_gb=16, symbolic="bytes of 2 transactions (4, 6 bytes)", asserts="sealed message == the open transactions in order, byte-identical; broadcast bytes == sealed message, once per peer; 3 ack handles; open batch and size counter reset"),
        H("batch_maker_h", "c11_seal_empty_tx", stubbing=True, timeout=900, mem_gb=16, symbolic="one empty transaction", asserts="as above"),
        H("batch_maker_h", "c11_seal_1_0_9", stubbing=True, timeout=900, mem_gb=16, symbolic="bytes of 3 transactions (1, 0, 9 bytes)", asserts="as above"),
        H("batch_maker_h", "c11_seal_12", stubbing=True, timeout=900, mem_gb=16, symbolic="12 bytes", asserts="as above"),
        H("batch_maker_h", "c11_run_size_then_empty_s0", stubbing=True, timeout=900, mem_gb=16, symbolic="bytes of 3 transactions (4, 6, 0 bytes); schedule tx,tx,tx,timer; batch_size 10", asserts="real run loop (lowered): sealed exactly in the step where size >= batch_size or the timer fires on a non-empty batch, never otherwise; batch == open transactions in order"),
        H("batch_maker_h", "c11_run_size_then_empty_s1", stubbing=True, timeout=900, mem_gb=16, symbolic="as s0, other select! start branch", asserts="as s0"),
        H("batch_maker_h", "c11_run_oversize_timer_s0", stubbing=True, timeout=900, mem_gb=16, symbolic="bytes of 3 transactions (12, 3, 2); schedule tx,timer,tx,tx,timer", asserts="as above; a timer on an empty batch seals nothing"),
        H("batch_maker_h", "c11_run_boundary_s1", stubbing=True, timeout=900, mem_gb=16, symbolic="bytes of 4 transactions (7, 1, 8, 9); batch_size 8", asserts="exact-threshold and consecutive size-triggered batches"),
        H("processor_h", "c11_processor_two_batches", stubbing=True, timeout=900, mem_gb=16, symbolic="two batches of 5 and 3 bytes", asserts="real Processor loop: each batch is hashed over its exact bytes, stored byte-for-byte under that digest, announced once with that digest, in arrival order"),
        H("mmempool_h", "c11_dispatch_batch_exact", stubbing=True, timeout=900, mem_gb=16, symbolic="batch message of one 2-byte transaction (contents symbolic)", asserts="real MempoolReceiverHandler::dispatch: the received frame reaches the processor exactly once, byte-for-byte; nothing goes to the helper"),
        H("mmempool_h", "c11_dispatch_batch_trailing", stubbing=True, timeout=900, mem_gb=16, symbolic="as above plus 2 arbitrary trailing bytes (tolerated by the decoder)", asserts="the processor gets the ORIGINAL bytes (they are what is hashed, stored and announced), not a re-encoding"),
        H("batch_maker_h", "c11_run_only_empty_s0", stubbing=True, timeout=900, mem_gb=16, symbolic="two empty transactions then the timer", asserts="a batch of only empty transactions is sealed when the timer fires"),
        H("batch_maker_h", "c11_run_oversize_timer_s1", tier="thorough", stubbing=True, timeout=900, mem_gb=16, symbolic="transaction contents; as oversize_timer, other select start", asserts="as the quick-tier run harnesses"),
        H("batch_maker_h", "c11_run_boundary_s0", tier="thorough", stubbing=True, timeout=900, mem_gb=16, symbolic="transaction contents; as boundary, other select start", asserts="as the quick-tier run harnesses"),
        H("batch_maker_h", "c11_run_only_empty_s1", tier="thorough", stubbing=True, timeout=900, mem_gb=16, symbolic="transaction contents; as only_empty, other select start", asserts="as the quick-tier run harnesses"),
        H("batch_maker_h", "c11_run_timer_first_s0", tier="thorough", stubbing=True, timeout=900, mem_gb=16, symbolic="transaction contents; timer on an empty buffer first, then mixed", asserts="as the quick-tier run harnesses"),
        H("batch_maker_h", "c11_run_many_small_s1", tier="thorough", stubbing=True, timeout=900, mem_gb=16, symbolic="transaction contents; five 1-byte transactions, batch size 4", asserts="as the quick-tier run harnesses"),
        H("batch_maker_h", "c11_run_batch_size_one_s0", tier="thorough", stubbing=True, timeout=900, mem_gb=16, symbolic="transaction contents; batch size 1 with an empty transaction first", asserts="as the quick-tier run harnesses"),
        H("batch_maker_h", "c11_seal_empty_tx", features="benchmark", stubbing=True, timeout=900, mem_gb=16, symbolic="one empty transaction, benchmark build", asserts="no panic in the sample-transaction scan"),
        H("batch_maker_h", "c11_seal_1_0_9", features="benchmark", stubbing=True, timeout=900, mem_gb=16, symbolic="3 transactions (1, 0, 9 bytes), first byte symbolic (0 = sample), benchmark build", asserts="no panic; same batch as the default build"),
    ],
)

# --------------------------------------------------------------------------------------------- C12
SPECS["C12"] = dict(
    level="model_checking",
    technique="bounded symbolic execution of the real QuorumWaiter::run loop, lowered with a synchronous select and take-what-is-ready acknowledgement waits (Kani/CBMC, SAT)",
    bounds="committee of 4 with fully symbolic u32 stakes (own stake symbolic, total < 2^31); one batch with 3 acknowledgement handles of which the subsets {}, {2}, {3,1}, {1,2,3} have acknowledged before the waiter handles the batch and the others never do; batch bytes symbolic",
    outside="PARTIAL CLAIM: the waiting itself (acknowledgements arriving while the task is suspended inside the handler), several batches in flight and head-of-line blocking, the dissemination-deadline branch; handles whose sender is dropped without a reply (counted as an acknowledgement by the code; ReliableSender never does that). The lowering replaces `wait_for_quorum.next().await` by `take the next acknowledgement that is already there, else stop waiting`, which is exact only for the listed schedules",
    trusted_base=TB_L + ["kani/shims/futures: array-backed FuturesUnordered polled in index order", "overlay.py LOWER_LOOPS/AWAIT_OR_NONE lowering of QuorumWaiter::run"],
    assumptions=["an acknowledgement handle resolves only with the peer's reply to that message (contract of ReliableSender)", "every acknowledgement that will arrive has arrived before the step"],
    harnesses=[
        H("quorum_waiter_h", "c12_acked_none", stubbing=True, timeout=900, mem_gb=16, symbolic="4 stakes, batch bytes", asserts="forwarded iff own stake alone >= quorum_threshold"),
        H("quorum_waiter_h", "c12_acked_2", stubbing=True, timeout=900, mem_gb=16, symbolic="4 stakes, batch bytes", asserts="forwarded iff own + stake(2) >= threshold; exactly once; bytes unchanged"),
        H("quorum_waiter_h", "c12_acked_31", stubbing=True, timeout=900, mem_gb=16, symbolic="4 stakes, batch bytes", asserts="forwarded iff own + stake(3) + stake(1) >= threshold"),
        H("quorum_waiter_h", "c12_acked_123", stubbing=True, timeout=900, mem_gb=16, symbolic="4 stakes, batch bytes", asserts="all acknowledged: forwarded exactly once"),
    ],
)


# C16: see NOT_APPLICABLE in lib/gen_manifest.py (harness kept for reference as DBG entries)
# --------------------------------------------------------------------------------------------- C15 (first part; extended below)
SPECS["C15"] = dict(
    level="model_checking",
    technique="bounded symbolic execution of decoders and request handlers on arbitrary input with Rust's panic conditions as assertions (Kani/CBMC, SAT)",
    bounds="consensus sync helper answering one request whose digest holds a block / 12 arbitrary bytes / nothing; PublicKey/SecretKey::decode_base64 on every ASCII string of length 4, 8, 44; BatchMaker::seal on empty and short transactions in the benchmark build; vote/TC/proposal handlers on invalid messages (C04 harnesses)",
    outside="PARTIAL CLAIM: the TCP framing layer and receiver tasks; bincode decoding of whole ConsensusMessage/MempoolMessage values from arbitrary buffers with the real bincode (only the shim decoder is exercised, on 12 arbitrary bytes); strings of other lengths; allocation failure; stack depth",
    trusted_base=TB_L,
    assumptions=[],
    harnesses=[
        H("chelper_h", "chelper_foreign_bytes", stubbing=True, timeout=900, mem_gb=16, symbolic="12 arbitrary bytes stored under the requested digest (a mempool batch in the shared store)", asserts="the helper task neither panics nor stops"),
        H("mhelper_h", "mhelper_member", stubbing=True, timeout=900, mem_gb=16, symbolic="6 stored batch bytes; request [stored digest, unknown digest] from authority 2", asserts="real mempool Helper::run: exactly one reply, the stored bytes, to the requester's mempool address; the unknown digest is skipped; the helper survives"),
        H("mhelper_h", "mhelper_stranger", stubbing=True, timeout=900, mem_gb=16, symbolic="as above, requester not in the committee", asserts="nothing is sent, the store is not consulted, the helper survives"),
        H("chelper_h", "chelper_block_member", stubbing=True, timeout=900, mem_gb=16, symbolic="stored block fields", asserts="no panic; reply = Propose(stored block)"),
        H("chelper_h", "chelper_missing", stubbing=True, timeout=900, mem_gb=16, symbolic="digest", asserts="no panic, no reply"),
        H("chelper_h", "chelper_block_nonmember", stubbing=True, timeout=900, mem_gb=16, symbolic="stored block fields", asserts="no panic, no reply to a non-member"),
        H("batch_maker_h", "c11_seal_empty_tx", features="benchmark", stubbing=True, timeout=900, mem_gb=16, symbolic="one empty transaction, benchmark build", asserts="no panic"),
        H("core2_h", "hv_single_nonmember", stubbing=True, timeout=900, mem_gb=16, symbolic="vote of a non-member", asserts="handler returns an error, no panic"),
        H("core2_h", "htc_bad_sig", stubbing=True, timeout=900, mem_gb=16, symbolic="TC with a transplanted signature", asserts="handler returns an error, no panic"),
        H("core2_h", "hp_genesis_empty_tc", stubbing=True, timeout=900, mem_gb=16, symbolic="TC round", asserts="hostile leader proposal (genesis QC, empty TC): rejected without reaching the voting rule's max() (no panic)"),
        H("core2_h", "hp_genesis_subquorum_tc", stubbing=True, timeout=900, mem_gb=16, symbolic="TC round", asserts="as above with a 2-entry TC"),
        H("crypto_r", "c15_pk_decode_len4", profile="R", pkg="crypto", stubbing=True, timeout=900, mem_gb=16, symbolic="every 4-character ASCII string", asserts="PublicKey::decode_base64 returns Ok or Err, never panics"),
        H("crypto_r", "c15_pk_decode_len8", profile="R", pkg="crypto", stubbing=True, timeout=900, mem_gb=16, symbolic="every 8-character ASCII string", asserts="as len4"),
        H("crypto_r", "c15_sk_decode_len4", profile="R", pkg="crypto", stubbing=True, timeout=900, mem_gb=16, symbolic="every 4-character ASCII string", asserts="SecretKey::decode_base64 never panics"),
        H("crypto_r", "c15_pk_decode_len44", profile="R", pkg="crypto", stubbing=True, timeout=1500, mem_gb=24, symbolic="every 44-character ASCII string (the length of a genuine key)", asserts="as len4"),
        H("crypto_r", "c15_pk_decode_len48", profile="R", pkg="crypto", stubbing=True, timeout=1500, mem_gb=24, symbolic="every 48-character ASCII string (decodes to more bytes than a key holds)", asserts="as len4"),
        H("crypto_r", "c15_sk_decode_len92", profile="R", pkg="crypto", tier="thorough", stubbing=True, timeout=3000, mem_gb=24, symbolic="every 92-character ASCII string (longer than a secret key)", asserts="as len4"),
    ],
)

# --------------------------------------------------------------------------------------------- C07 (local obligations only)
SPECS["C07"] = dict(
    level="model_checking",
    technique="bounded symbolic execution of the real Core::process_block (missing parent) and consensus Helper::run (Kani/CBMC, SAT)",
    bounds="one block with an unknown parent (round, QC round, parent digest symbolic); one sync request against a store holding the block / nothing, from a member / non-member",
    outside="PARTIAL CLAIM (local obligations only): convergence of a real lagging node, recursive ancestor fetching through the synchronizer task (select! coroutine), retry timing, behaviour under real TCP are NOT decided",
    trusted_base=TB_L,
    assumptions=["ideal signatures"],
    harnesses=[
        H("core2_h", "pb_missing_parent", stubbing=True, timeout=900, mem_gb=16, symbolic="block round, QC round, parent digest, node last_voted/high_qc", asserts="block parked at the synchronizer; not stored, not voted, no commit, round unchanged"),
        H("chelper_h", "chelper_block_member", stubbing=True, timeout=900, mem_gb=16, symbolic="stored block fields", asserts="peer answered with exactly the bytes stored under the requested digest as a Propose message, at the requester's address"),
        H("chelper_h", "chelper_missing", stubbing=True, timeout=900, mem_gb=16, symbolic="digest", asserts="unknown digest: no reply"),
        H("chelper_h", "chelper_block_nonmember", stubbing=True, timeout=900, mem_gb=16, symbolic="stored block fields", asserts="unknown requester: no reply"),
    ],
)
# --------------------------------------------------------------------------------------------- C08
SPECS["C08"] = dict(
    level="model_checking",
    technique="bounded symbolic execution of the real Core::handle_proposal / MempoolDriver::verify with the batch present or absent (Kani/CBMC, SAT)",
    bounds="a valid leader proposal of round 7 with one payload digest (symbolic) on a stored certified 2-chain, batch present / absent in the store; node last_voted_round and high_qc symbolic",
    outside="PARTIAL CLAIM: payloads with more than one digest; the PayloadWaiter task that resumes the block (select! coroutine); the commit-path clause (delivered blocks have their batches) rests on this vote-path check plus the store-before-vote order, not on its own harness",
    trusted_base=TB_L,
    assumptions=["ideal signatures", "abstract hash collision-free on the digests of a run"],
    harnesses=[
        H("core2_h", "hp_payload_missing", stubbing=True, timeout=1200, mem_gb=20, symbolic="batch digest, node last_voted/high_qc", asserts="no vote, no store write, no commit; exactly one Synchronize(missing, author) and one Wait(missing, block)"),
        H("core2_h", "hp_payload_present", stubbing=True, timeout=1200, mem_gb=20, symbolic="batch digest, node last_voted/high_qc", asserts="block processed and voted when the voting rule allows"),
    ],
)

# --------------------------------------------------------------------------------------------- C16
_C16 = [("c16_read_unknown", "none", "a key never written reads as nothing", True),
        ("c16_read_other_key_unknown", "value", "a write to another key does not give this key a value", False),
        ("c16_write_read_other_handle", "value", "a read through another handle returns the written value", False),
        ("c16_overwrite", "2 values", "the latest write wins", False),
        ("c16_keys_independent", "2 values", "keys do not interfere", False),
        ("c16_queued_in_issue_order", "2 values", "two writes and a read queued from three handles before the store task runs are applied in issue order", False),
        ("c16_notify_existing", "value", "notify_read on an existing key completes with its value", False),
        ("c16_notify_pending", "none", "notify_read on a missing key stays pending while nothing is written", True),
        ("c16_st_park_one", "none", "parking step: after a notify_read of a missing key the waiter table holds exactly one waiter under exactly that key", True),
        ("c16_st_existing_not_parked", "value", "notify_read of a key that has a value is answered and leaves no waiter behind (invariant: valued key has no waiters)", False),
        ("c16_st_wake_two", "value", "wake-up step from a table with two waiters under key 1 and one under key 2: Write(1,v) completes both with v, clears the entry, leaves the other waiter parked", False),
        ("c16_st_wake_first_write", "2 values", "wake-up step: a parked waiter gets the FIRST of two queued writes; table cleared", False),
        ]
_C16_THOROUGH = [("c16_st_notify_then_write", "value", "full schedule: notify_read parked by the store task, later write completes it with the written value"),
                 ("c16_st_notify_write_queued", "value", "full schedule: notify_read and a write to its key queued before the store task runs: no lost wake-up")]
SPECS["C16"] = dict(
    level="model_checking",
    technique="bounded symbolic execution of the real store command loop and handle functions (Kani/CBMC, SAT); the spawned loop is made callable by a per-run source lowering",
    bounds="concrete command schedules of 1..3 commands over 1..3 cloned handles, keys concrete (1 byte), values symbolic (1 byte); the store task runs at the points the harness chooses. Wake-up clauses as ONE-STEP obligations over the state-passing form of the loop (the waiter table `obligations` is owned by the harness between runs of the real loop body): parking step from the empty table (table afterwards = exactly one waiter under exactly that key), wake-up step from tables built directly with real oneshot channels (two waiters under key 1 + one under key 2: Write(1,v) completes both with v, clears the entry, leaves the other parked; one waiter + two queued writes: first value wins), and the invariant step (a key with a value gets no waiter). thorough: the full histories notify_read -> park -> write -> completion, and notify_read + write queued before the task runs (each ~900 s)",
    outside="PARTIAL CLAIM: parking when the table already holds waiters (c16_st_park_behind / c16_st_park_other_key: no result in 900 s) - so 'any number of concurrent waiters' rests on the wake-up step from a 2+1-waiter table plus the single parking step, not on a parking step from every table; two waiters parked by the loop itself and then woken in one history (timeout); RocksDB itself (replaced by a 4-slot last-write-wins table: durability across restart, compaction, I/O errors); longer schedules; keys/values longer than 1 byte; the real tokio scheduler and channel (capacity 100; shim: FIFO of 4)",
    trusted_base=COMMON_TB + [
        "kani/shims/tokio: sequential FIFO mpsc, oneshot, TailFut",
        "kani/shims/rocksdb: DB::open_default/put/get over one in-memory table",
        "kani/overlay.py lower_spawned_loop: Store::verif_new generated from the text of Store::new (spawned block -> closure, `rx.recv().await` -> take a queued command or return); Store::verif_new_st: the same text with the `let mut obligations = ..;` statement lifted out (the closure takes the table as `&mut` argument, the harness owns it between runs)",
        "kani/overlay.py deasync: write lowered; read/notify_read lowered to `prefix; TailFut(receiver, postfix)` (prefix runs at call time instead of first poll)",
        "kani/shims/vwit: witness channel"],
    assumptions=["the store task is scheduled only between handle calls (sequential model)"],
    harnesses=[H("store_h", n, profile="S", timeout=900, mem_gb=16, symbolic=sym, asserts=a, need_cover=not nc) for n, sym, a, nc in _C16]
    + [H("store_h", n, profile="S", tier="thorough", timeout=2700, mem_gb=24, symbolic=sym, asserts=a) for n, sym, a in _C16_THOROUGH],
)

SPECS["DBG"] = dict(harnesses=[H("store_h", "dbg_store_min", profile="S", timeout=400, need_cover=False), H("config_h", "dbg_const_threshold", timeout=300, need_cover=False), H("core_h", "dbg_commit_one", timeout=200, need_cover=False, stubbing=True), H("core_h", "dbg_parent_one", timeout=200, need_cover=False, stubbing=True), H("core_h", "dbg_ser_de", timeout=120, need_cover=False, stubbing=True), H("core_h", "dbg_store_de", timeout=120, need_cover=False, stubbing=True)])

# --------------------------------------------------------------------------------------------- C01
def _c01_engine(tier, seed, rundir, repo, overlays, results):
    """Engine Z: bounded agreement model whose node-local rules are read off the real code (cover verdicts and assertion
    harness verdicts of this very run), decided by z3 and cross-checked with cvc5."""
    import json
    import subprocess
    import time
    t0 = time.time()
    by = {h["short"]: (st, parsed) for h, st, parsed, _, _ in results}
    out = {"name": "c01_agreement_smt", "queries": 0, "wall_s": 0.0, "status": "ERROR", "solver_s": 0.0, "functions": []}

    def cov(short, tag):
        st, parsed = by.get(short, ("MISSING", {"covers": []}))
        for c in parsed["covers"]:
            if tag in c["desc"]:
                return c["status"] == "SATISFIED"
        return None
    need = ["c01_rules_vote", "c01_rules_vote_notc", "lt_local_timeout", "pb_gap_notc", "pb_consec_notc", "c04_qc_verify_k3", "c04_tc_verify_k3",
            "c04_block_verify_notc", "c04_block_verify_tc", "c04_timeout_verify_qc"]
    for n in need:
        st = by.get(n, ("MISSING", None))[0]
        if st not in ("PASS", "FAIL"):
            out["detail"] = "rule source %s is %s" % (n, st)
            out["wall_s"] = time.time() - t0
            return out

    def failed_with(short, text):
        st, parsed = by[short]
        return st == "FAIL" and any(text in f["desc"] for f in parsed["failed"])
    both = lambda tag: bool(cov("c01_rules_vote", tag)) or bool(cov("c01_rules_vote_notc", tag))  # noqa: E731
    kn = {"N": 4, "F": 1}
    kn["rule1"] = "none" if (both("vote_below_last_voted") or cov("c01_rules_vote", "vote_does_not_record_round")) else ("weak" if both("vote_at_equal_round") else "strict")
    kn["consec"] = not both("vote_without_consecutive_certificate")
    kn["tc_slack"] = None if cov("c01_rules_vote", "tc_vote_qc_far_below_max_high_qc") else (1 if cov("c01_rules_vote", "tc_vote_qc_one_below_max_high_qc") else 0)
    qs = [k for k, tag in ((1, "q_is_1"), (2, "q_is_2"), (3, "q_is_3"), (4, "q_is_4_or_more")) if cov("c01_rules_vote", tag)]
    kn["q"] = qs[0] if len(qs) == 1 else 3
    kn["bump"] = not failed_with("lt_local_timeout", "timeout did not raise last_voted_round")
    kn["gap_any"] = failed_with("pb_gap_notc", "C05 commit without a consecutive-round")
    cert_sources = ["c04_qc_verify_k3", "c04_tc_verify_k3", "c04_block_verify_notc", "c04_block_verify_tc", "c04_timeout_verify_qc"]
    kn["cert_sound"] = all(by[c][0] == "PASS" for c in cert_sources)
    sane = cov("c01_rules_vote", "sanity_qc_vote_possible") and cov("c01_rules_vote", "sanity_tc_vote_possible") and len(qs) == 1
    ref = {"rule1": "strict", "consec": True, "tc_slack": 0, "q": 3, "bump": True, "gap_any": False, "cert_sound": True}
    deviating = [k for k in ref if kn[k] != ref[k]]
    out["rule_table"] = {k: kn[k] for k in ref}
    out["rule_table_deviates_from_2chain_hotstuff"] = deviating
    out["functions"] = ["core::Core::make_vote", "core::Core::local_timeout_round", "core::Core::process_block", "config::Committee::quorum_threshold",
                        "messages::QC::verify", "messages::TC::verify"]
    if not sane:
        out["status"] = "ERROR"
        out["detail"] = "rule extraction vacuous (a sanity cover is unsatisfiable or the threshold is not unique): %s" % qs
        out["wall_s"] = time.time() - t0
        return out
    ks = [5] if tier == "quick" else [5, 6, 7]
    runs = []
    status = "PASS"
    here = os.path.dirname(os.path.dirname(os.path.abspath(__file__)))
    for K in ks:
        k2 = dict(kn, K=K, timeout_s=600 if tier == "quick" else 2400, dump=os.path.join(rundir, "agree_K%d.smt2" % K))
        r = subprocess.run(["python3-vt", os.path.join(here, "smt", "agree.py"), json.dumps(k2)], stdout=subprocess.PIPE, stderr=subprocess.PIPE, universal_newlines=True)
        out["queries"] += 1
        try:
            res = json.loads(r.stdout.strip().split("\n")[-1])
        except Exception:  # noqa
            out["detail"] = "z3 run failed: " + (r.stderr or r.stdout)[-400:]
            out["wall_s"] = time.time() - t0
            return out
        out["solver_s"] += res["solver_s"]
        run = {"K": K, "z3": res["result"], "z3_s": res["solver_s"], "assertions": res["assertions"]}
        # second solver: the same encoding at K=4 is re-decided by cvc5 from the SMT-LIB text z3 printed (K=5 already takes cvc5 > 5 min)
        if K == ks[0]:
            k4 = dict(kn, K=4, timeout_s=300, dump=os.path.join(rundir, "agree_K4.smt2"))
            r4 = subprocess.run(["python3-vt", os.path.join(here, "smt", "agree.py"), json.dumps(k4)], stdout=subprocess.PIPE, stderr=subprocess.PIPE, universal_newlines=True)
            z4 = json.loads(r4.stdout.strip().split("\n")[-1])["result"]
            tc = time.time()
            c = subprocess.run(["timeout", "300", "cvc5", "--lang", "smt2", k4["dump"]], stdout=subprocess.PIPE, stderr=subprocess.STDOUT, universal_newlines=True)
            out["queries"] += 2
            cres = "error" if "(error" in c.stdout else (c.stdout.strip().split("\n")[-1] if c.stdout.strip() else "timeout")
            run["cross_check_K4"] = {"z3": z4, "cvc5": cres, "cvc5_s": round(time.time() - tc, 1)}
            if cres in ("sat", "unsat") and cres != z4:
                status = "ERROR"
                out["detail"] = "solvers disagree at K=4: z3 %s, cvc5 %s" % (z4, cres)
            if cres == "error":
                status = "ERROR"
                out["detail"] = "cvc5 rejected the SMT-LIB text: " + c.stdout[:300]
        runs.append(run)
        if res["result"] == "sat":
            status = "FAIL"
            out["history"] = res.get("history")
            out["failed"] = ["C01 agreement violated in the bounded history model instantiated with the rules extracted from the code "
                             "(deviating rules: %s; K=%d blocks, N=4, f=1)" % (", ".join(deviating) or "none", K)]
            break
        if res["result"] != "unsat":
            status = "ERROR"
            out["detail"] = "z3 returned %s at K=%d" % (res["result"], K)
            break
        if status == "ERROR":
            break
    out["runs"] = runs
    out["status"] = status
    out["obligations"] = len(runs)
    out["discharged"] = len([r for r in runs if r["z3"] == "unsat"])
    out["nontrivial"] = out["discharged"]
    # which assertion harness demonstrates the deviating local step natively
    rep = []
    if any(k in deviating for k in ("rule1", "consec", "tc_slack")):
        rep += ["c03_make_vote_tc", "c03_make_vote_no_tc"]
    if "bump" in deviating:
        rep += ["lt_local_timeout"]
    if "gap_any" in deviating:
        rep += ["pb_gap_notc"]
    if "q" in deviating:
        rep += ["c17_quorum_k4"]
    if "cert_sound" in deviating:
        rep += [c for c in cert_sources if by[c][0] == "FAIL"]
    out["replay_of"] = rep
    out["bounds"] = "N=4 nodes, f=1 Byzantine, K=%s blocks, rounds <= K+1" % ks
    out["wall_s"] = round(time.time() - t0, 1)
    return out


SPECS["C01"] = dict(
    level="model_checking",
    technique="SMT (z3, cross-checked with cvc5) bounded history encoding of agreement whose node-local rules are extracted from the real code by Kani/CBMC cover and assertion queries on every run",
    bounds="N=4 nodes with equal stake, up to f=1 Byzantine (free), K=5 blocks (thorough: 6, 7) with arbitrary rounds <= K+1, parents, TCs, vote/timeout orders; fully adversarial network. Rule extraction: all u64 rounds below 2^62 for make_vote (TC of 3 entries), one local timeout, process_block on stored 2-chains (5,6)/(5,7), QC/TC verification with 3 entries",
    outside="longer histories, other committees/stake distributions, more Byzantine nodes; the adequacy of the rule vocabulary (a code change outside the extracted rules - e.g. in how certificates are embedded in proposals - is invisible to the model); everything the shims assume (ideal signatures, collision-free hash). This is a bounded claim about an abstraction computed from the code, not a proof of HotStuff",
    trusted_base=TB_L + ["smt/agree.py: the history encoding (blocks, votes, timeouts, certificates, commit rule, ancestor relation)", "z3 4.8.12, cvc5 1.0"],
    assumptions=["honest nodes follow exactly the extracted local rules; Byzantine nodes and the network are unconstrained", "rounds below 2^62"],
    engines=[_c01_engine],
    harnesses=[
        H("core_h", "c01_rules_vote", info_covers=True, symbolic="last_voted_round, block/QC/TC rounds, 3 high-QC rounds (u64)", asserts="(none: 12 cover queries - can the real make_vote vote at/below last_voted, without a consecutive certificate, with the QC 1 / >=2 below the TC's max high QC; which quorum threshold)"),
        H("core_h", "c01_rules_vote_notc", info_covers=True, symbolic="last_voted_round, block/QC rounds", asserts="(none: 4 cover queries)"),
        H("core_h", "c03_make_vote_no_tc", symbolic="as C03", asserts="local step replayed natively if the vote rule deviates"),
        H("core_h", "c03_make_vote_tc", symbolic="as C03", asserts="as above"),
        H("core2_h", "lt_local_timeout", stubbing=True, timeout=900, mem_gb=16, symbolic="node state", asserts="rule source: a local timeout raises last_voted_round"),
        H("core_h", "pb_gap_notc", stubbing=True, timeout=900, mem_gb=16, symbolic="node state, block", asserts="rule source: no commit across a round gap"),
        H("core_h", "pb_consec_notc", stubbing=True, timeout=900, mem_gb=16, symbolic="node state, block", asserts="rule source: commit on a consecutive 2-chain"),
        H("messages_h", "c04_qc_verify_k3", symbolic="as C04", asserts="rule source: certificates need a quorum of distinct members with valid signatures"),
        H("messages_h", "c04_tc_verify_k3", symbolic="as C04", asserts="as above"),
        H("messages_h", "c04_block_verify_notc", symbolic="as C04", asserts="rule source: a proposal is accepted only with a valid embedded QC (or the genesis QC)"),
        H("messages_h", "c04_block_verify_tc", symbolic="as C04", asserts="rule source: ... and a valid embedded TC"),
        H("messages_h", "c04_timeout_verify_qc", symbolic="as C04", asserts="rule source: a timeout is accepted only with a valid embedded high QC"),
        H("config_h", "c17_quorum_k4", symbolic="as C17", asserts="local step replayed natively if the threshold deviates"),
    ],
)


# --------------------------------------------------------------------------------------------- C17 second engine: MIR -> SMT
def _c17_mir_engine(tier, seed, rundir, repo, overlays, results):
    """Translate the arithmetic of both quorum_threshold functions from the nightly MIR dump of the overlay (i.e. of /repo's
    current source) into QF_BV and let z3 and cvc5 decide the C17 inequalities for every total stake below 2^31."""
    import json
    import shutil
    import subprocess
    import time
    t0 = time.time()
    out = {"name": "c17_mir_bitvector", "queries": 0, "wall_s": 0.0, "status": "ERROR", "solver_s": 0.0,
           "functions": ["config::Committee::quorum_threshold (consensus)", "config::Committee::quorum_threshold (mempool)"]}
    if "L" not in overlays:
        out["detail"] = "no overlay"
        return out
    here = os.path.dirname(os.path.dirname(os.path.abspath(__file__)))
    ws = os.path.join(rundir, "mir-ws")
    shutil.copytree(overlays["L"], ws)
    env = dict(os.environ, CARGO_NET_OFFLINE="true", CARGO_TARGET_DIR=os.path.join(rundir, "mir-target"))
    env.pop("RUSTFLAGS", None)
    mirs = {}
    for crate in ("mempool", "consensus"):
        p = os.path.join(rundir, crate + ".mir")
        with open(p, "w") as f:
            r = subprocess.run(["timeout", "900", "cargo", "+nightly", "rustc", "--offline", "-p", crate, "--lib", "--", "-Zunpretty=mir",
                                "-C", "debug-assertions=off", "-C", "overflow-checks=on"], cwd=ws, env=env, stdout=f, stderr=subprocess.PIPE, universal_newlines=True)
        if r.returncode != 0 or os.path.getsize(p) == 0:
            out["detail"] = "MIR dump of %s failed: %s" % (crate, r.stderr[-400:])
            out["wall_s"] = round(time.time() - t0, 1)
            return out
        mirs[crate] = p
    r = subprocess.run(["python3", os.path.join(here, "smt", "mir_quorum.py"), mirs["consensus"], mirs["mempool"], rundir], stdout=subprocess.PIPE, stderr=subprocess.PIPE, universal_newlines=True)
    try:
        res = json.loads(r.stdout.strip().split("\n")[-1])
    except Exception:  # noqa
        out["detail"] = "translator crashed: " + (r.stderr or r.stdout)[-400:]
        out["wall_s"] = round(time.time() - t0, 1)
        return out
    out.update({k: res[k] for k in ("status", "queries", "terms", "detail") if k in res})
    out["smt_queries"] = res.get("queries", [])
    out["queries"] = 2 * len(res.get("queries", []))
    out["obligations"] = out["queries"]
    out["discharged"] = sum((q["z3"] == "unsat") + (q["cvc5"] == "unsat") for q in res.get("queries", []))
    out["nontrivial"] = len([q for q in res.get("queries", []) if q["z3"] == "unsat" and q["cvc5"] == "unsat"])
    out["solver_s"] = round(sum(q["z3_s"] + q["cvc5_s"] for q in res.get("queries", [])), 1)
    out["bounds"] = "every total stake 1 <= t < 2^31 (32-bit wrap-around semantics, overflow panics included), independent of the number of authorities"
    if out["status"] == "FAIL":
        out["failed"] = ["C17 threshold arithmetic violates the quorum inequalities for some total stake: %s" % json.dumps(res.get("queries"))[:300]]
        out["replay_of"] = ["c17_quorum_k4", "c17_quorum_k3", "c17_quorum_k2", "c17_quorum_k1", "c17_same_k4"]
    shutil.rmtree(ws, ignore_errors=True)
    shutil.rmtree(os.path.join(rundir, "mir-target"), ignore_errors=True)
    out["wall_s"] = round(time.time() - t0, 1)
    return out


SPECS["C17"]["engines"] = [_c17_mir_engine]
SPECS["C17"]["trusted_base"] = SPECS["C17"]["trusted_base"] + ["smt/mir_quorum.py: MIR statement -> bit-vector term translation (fails closed on anything it does not understand)", "rustc nightly -Zunpretty=mir", "z3 4.8.12, cvc5 1.0"]

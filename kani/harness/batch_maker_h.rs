//! C11 harnesses attached to mempool/src/batch_maker.rs: the REAL `BatchMaker::run` loop (select!, timer, seal) is driven
//! by the harness through the sequential tokio shim. Event schedules and transaction sizes are concrete (they decide the
//! control flow of the loop and the shapes of the batches); transaction contents are symbolic.
#![allow(unused_imports, dead_code)]
use super::*;
use std::future::Future;
use std::net::{IpAddr, Ipv4Addr, SocketAddr};
use std::task::{Context, Poll};
use tokio::sync::mpsc::channel;

fn addr(p: u16) -> SocketAddr {
    SocketAddr::new(IpAddr::V4(Ipv4Addr::new(127, 0, 0, 1)), p)
}
fn pk(i: u8) -> PublicKey {
    let mut k = PublicKey::default();
    k.0[0] = i + 1;
    k
}
#[derive(Clone, Copy)]
enum Ev {
    /// a client transaction of this many (symbolic) bytes arrives
    Tx(usize),
    /// the seal timer fires
    Timer,
}
const MAXTX: usize = 12;
fn any_tx(len: usize) -> ([u8; MAXTX], Vec<u8>) {
    let b: [u8; MAXTX] = vwit::any_bytes::<MAXTX>();
    let mut v = Vec::with_capacity(MAXTX);
    let mut i = 0;
    while i < len {
        v.push(b[i]);
        i += 1;
    }
    (b, v)
}
/// Real `BatchMaker::seal` on an open batch of E transactions of the given (concrete) sizes and symbolic contents:
/// the sealed message is exactly those transactions, in order, byte-identical; it is what is broadcast to every peer;
/// one acknowledgement handle per peer; the open batch and its size counter are reset. No panic for any content
/// (including empty and 1-byte transactions, and - with the `benchmark` feature - transactions that look like samples).
fn seal_check<const E: usize>(lens: [usize; E]) {
    let (_tx_transaction, rx_transaction) = channel::<Transaction>(10);
    let (tx_message, mut rx_message) = channel(10);
    let mut bm = BatchMaker {
        batch_size: 1000,
        max_batch_delay: 100,
        rx_transaction,
        tx_message,
        mempool_addresses: vec![(pk(1), addr(201)), (pk(2), addr(202)), (pk(3), addr(203))],
        current_batch: Batch::with_capacity(8),
        current_batch_size: 0,
        network: ReliableSender::new(),
    };
    let mut raw: [[u8; MAXTX]; E] = [[0; MAXTX]; E];
    let mut e = 0;
    while e < E {
        let (r, t) = any_tx(lens[e]);
        raw[e] = r;
        bm.current_batch_size += t.len();
        bm.current_batch.push(t);
        e += 1;
    }
    let w = tokio::noop_waker();
    let mut cx = Context::from_waker(&w);
    {
        let f = bm.seal();
        let mut f = std::pin::pin!(f);
        assert!(f.as_mut().poll(&mut cx).is_ready(), "seal must complete");
    }
    assert!(bm.current_batch.is_empty() && bm.current_batch_size == 0, "C11 open batch not emptied by seal (a transaction would be batched twice)");
    let m = rx_message.try_pop();
    assert!(m.is_some(), "C11 sealed batch not handed to the quorum waiter");
    let m = m.unwrap();
    assert!(rx_message.len() == 0);
    assert!(m.handlers.len() == 3, "C11 one acknowledgement handle per peer");
    match bincode::deserialize::<MempoolMessage>(&m.batch) {
        Ok(MempoolMessage::Batch(b)) => {
            assert!(b.len() == E, "C11 sealed batch has a different number of transactions");
            let mut i = 0;
            while i < E {
                assert!(b[i].len() == lens[i], "C11 transaction length changed");
                let mut j = 0;
                while j < lens[i] {
                    assert!(b[i][j] == raw[i][j], "C11 transaction bytes changed or reordered");
                    j += 1;
                }
                i += 1;
            }
            std::mem::forget(b);
        }
        _ => assert!(false, "C11 sealed batch is not a serialized Batch message"),
    }
    let sent = network::SENT.lock().unwrap();
    assert!(sent.len() == 3, "C11 batch not broadcast to every peer exactly once");
    let mut p = 0;
    while p < 3 {
        let s = &sent[p];
        assert!(s.reliable && s.data.len() == m.batch.len(), "C11 broadcast differs from the sealed batch");
        let mut j = 0;
        while j < m.batch.len() {
            assert!(s.data[j] == m.batch[j], "C11 broadcast bytes differ from the sealed batch");
            j += 1;
        }
        p += 1;
    }
    vwit::cover!(true);
    std::mem::forget(m);
    std::mem::forget(bm);
    std::mem::forget((_tx_transaction, rx_message));
}
macro_rules! seal_h {
    ($name:ident, [$($l:expr),*]) => {
        #[kani::proof]
        #[kani::unwind(64)]
        #[kani::stub(std::fmt::format, stub_format)]
        fn $name() {
            seal_check([$($l),*])
        }
    };
}
pub fn stub_format(_args: std::fmt::Arguments<'_>) -> String {
    String::new()
}
seal_h!(c11_seal_4_6, [4, 6]);
seal_h!(c11_seal_empty_tx, [0]);
seal_h!(c11_seal_1_0_9, [1, 0, 9]);
seal_h!(c11_seal_12, [12]);

//! C11 harnesses attached to mempool/src/batch_maker.rs: the REAL `BatchMaker::run` loop (select!, timer, seal) is driven
//! by the harness through the sequential tokio shim. Event schedules and transaction sizes are concrete (they decide the
//! control flow of the loop and the shapes of the batches); transaction contents are symbolic.
#![allow(unused_imports, dead_code)]
use super::*;
use std::future::Future;
use std::net::{IpAddr, Ipv4Addr, SocketAddr};
use std::task::{Context, Poll};
use tokio::sync::mpsc::channel;

fn addr(p: u16) -> SocketAddr {
    SocketAddr::new(IpAddr::V4(Ipv4Addr::new(127, 0, 0, 1)), p)
}
fn pk(i: u8) -> PublicKey {
    let mut k = PublicKey::default();
    k.0[0] = i + 1;
    k
}
#[derive(Clone, Copy)]
enum Ev {
    /// a client transaction of this many (symbolic) bytes arrives
    Tx(usize),
    /// the seal timer fires
    Timer,
}
const MAXTX: usize = 12;
fn any_tx(len: usize) -> ([u8; MAXTX], Vec<u8>) {
    let b: [u8; MAXTX] = vwit::any_bytes::<MAXTX>();
    let mut v = Vec::with_capacity(MAXTX);
    let mut i = 0;
    while i < len {
        v.push(b[i]);
        i += 1;
    }
    (b, v)
}
/// Real `BatchMaker::seal` on an open batch of E transactions of the given (concrete) sizes and symbolic contents:
/// the sealed message is exactly those transactions, in order, byte-identical; it is what is broadcast to every peer;
/// one acknowledgement handle per peer; the open batch and its size counter are reset. No panic for any content
/// (including empty and 1-byte transactions, and - with the `benchmark` feature - transactions that look like samples).
fn seal_check<const E: usize>(lens: [usize; E]) {
    let (_tx_transaction, rx_transaction) = channel::<Transaction>(10);
    let (tx_message, mut rx_message) = channel(10);
    let mut bm = BatchMaker {
        batch_size: 1000,
        max_batch_delay: 100,
        rx_transaction,
        tx_message,
        mempool_addresses: vec![(pk(1), addr(201)), (pk(2), addr(202)), (pk(3), addr(203))],
        current_batch: Batch::with_capacity(8),
        current_batch_size: 0,
        network: ReliableSender::new(),
    };
    let mut raw: [[u8; MAXTX]; E] = [[0; MAXTX]; E];
    let mut e = 0;
    while e < E {
        let (r, t) = any_tx(lens[e]);
        raw[e] = r;
        bm.current_batch_size += t.len();
        bm.current_batch.push(t);
        e += 1;
    }
    let w = tokio::noop_waker();
    let mut cx = Context::from_waker(&w);
    {
        let f = bm.seal();
        let mut f = std::pin::pin!(f);
        assert!(f.as_mut().poll(&mut cx).is_ready(), "seal must complete");
    }
    assert!(bm.current_batch.is_empty() && bm.current_batch_size == 0, "C11 open batch not emptied by seal (a transaction would be batched twice)");
    let m = rx_message.try_pop();
    assert!(m.is_some(), "C11 sealed batch not handed to the quorum waiter");
    let m = m.unwrap();
    assert!(rx_message.len() == 0);
    assert!(m.handlers.len() == 3, "C11 one acknowledgement handle per peer");
    match bincode::deserialize::<MempoolMessage>(&m.batch) {
        Ok(MempoolMessage::Batch(b)) => {
            assert!(b.len() == E, "C11 sealed batch has a different number of transactions");
            let mut i = 0;
            while i < E {
                assert!(b[i].len() == lens[i], "C11 transaction length changed");
                let mut j = 0;
                while j < lens[i] {
                    assert!(b[i][j] == raw[i][j], "C11 transaction bytes changed or reordered");
                    j += 1;
                }
                i += 1;
            }
            std::mem::forget(b);
        }
        _ => assert!(false, "C11 sealed batch is not a serialized Batch message"),
    }
    let sent = network::SENT.lock().unwrap();
    assert!(sent.len() == 3, "C11 batch not broadcast to every peer exactly once");
    let mut p = 0;
    while p < 3 {
        let s = &sent[p];
        assert!(s.reliable && s.data.len() == m.batch.len(), "C11 broadcast differs from the sealed batch");
        let mut j = 0;
        while j < m.batch.len() {
            assert!(s.data[j] == m.batch[j], "C11 broadcast bytes differ from the sealed batch");
            j += 1;
        }
        p += 1;
    }
    vwit::cover!(true);
    std::mem::forget(m);
    std::mem::forget(bm);
    std::mem::forget((_tx_transaction, rx_message));
}
macro_rules! seal_h {
    ($name:ident, [$($l:expr),*]) => {
        #[kani::proof]
        #[kani::unwind(64)]
        #[kani::stub(std::fmt::format, stub_format)]
        fn $name() {
            seal_check([$($l),*])
        }
    };
}
pub fn stub_format(_args: std::fmt::Arguments<'_>) -> String {
    String::new()
}
seal_h!(c11_seal_4_6, [4, 6]);
seal_h!(c11_seal_empty_tx, [0]);
seal_h!(c11_seal_1_0_9, [1, 0, 9]);
seal_h!(c11_seal_12, [12]);

// ===================================================================================== the run loop (lowered, see overlay.py LOWER_LOOPS)
/// Drive the real `BatchMaker::run` over a concrete schedule of events (transaction arrivals of concrete sizes, timer
/// expiries); after each event the loop runs until the task would go to sleep. Checks that a batch is sealed in the very
/// step in which the size threshold is reached or the timer fires on a non-empty batch - and never otherwise - with
/// exactly the open transactions, in order, byte for byte.
fn drive<const E: usize>(batch_size: usize, evs: [Ev; E], select_start: usize) {
    tokio::CTL.lock().unwrap().select_start = select_start;
    let (tx_transaction, rx_transaction) = channel(10);
    let (tx_message, mut rx_message) = channel(10);
    let mut bm = BatchMaker {
        batch_size,
        max_batch_delay: 100,
        rx_transaction,
        tx_message,
        mempool_addresses: vec![(pk(1), addr(201)), (pk(2), addr(202)), (pk(3), addr(203))],
        current_batch: Batch::with_capacity(8),
        current_batch_size: 0,
        network: ReliableSender::new(),
    };
    let w = tokio::noop_waker();
    let mut cx = Context::from_waker(&w);
    let mut open: [[u8; MAXTX]; 4] = [[0; MAXTX]; 4];
    let mut open_len: [usize; 4] = [0; 4];
    let mut n_open = 0usize;
    let mut open_bytes = 0usize;
    let mut sealed = 0usize;
    let mut e = 0;
    while e < E {
        let expect_seal;
        match evs[e] {
            Ev::Tx(len) => {
                let (raw, t) = any_tx(len);
                open[n_open] = raw;
                open_len[n_open] = len;
                n_open += 1;
                open_bytes += len;
                expect_seal = open_bytes >= batch_size;
                let r = tx_transaction.send(t);
                let mut r = std::pin::pin!(r);
                assert!(matches!(r.as_mut().poll(&mut cx), Poll::Ready(Ok(()))));
                tokio::CTL.lock().unwrap().timer_mode = 0;
            }
            Ev::Timer => {
                expect_seal = n_open > 0;
                tokio::CTL.lock().unwrap().timer_mode = 3;
            }
        }
        {
            let f = bm.run();
            let mut f = std::pin::pin!(f);
            assert!(f.as_mut().poll(&mut cx).is_ready(), "lowered run loop did not return when idle");
        }
        tokio::CTL.lock().unwrap().timer_mode = 0;
        if expect_seal {
            let m = rx_message.try_pop();
            assert!(m.is_some(), "C11 batch not sealed although the size threshold was reached / the timer fired on a non-empty batch");
            let m = m.unwrap();
            match bincode::deserialize::<MempoolMessage>(&m.batch) {
                Ok(MempoolMessage::Batch(b)) => {
                    assert!(b.len() == n_open, "C11 sealed batch has a different number of transactions");
                    let mut i = 0;
                    while i < n_open {
                        assert!(b[i].len() == open_len[i], "C11 transaction length changed");
                        let mut j = 0;
                        while j < open_len[i] {
                            assert!(b[i][j] == open[i][j], "C11 transaction bytes changed or reordered");
                            j += 1;
                        }
                        i += 1;
                    }
                    std::mem::forget(b);
                }
                _ => assert!(false, "C11 sealed batch is not a serialized Batch message"),
            }
            sealed += 1;
            n_open = 0;
            open_bytes = 0;
            std::mem::forget(m);
        }
        assert!(rx_message.len() == 0, "C11 a batch was sealed although neither the threshold nor the timer asked for it");
        e += 1;
    }
    assert!(network::SENT.lock().unwrap().len() == 3 * sealed, "C11 each sealed batch is broadcast once per peer");
    vwit::cover!(sealed >= 1);
    std::mem::forget(bm);
    std::mem::forget((tx_transaction, rx_message));
}
macro_rules! bm_h {
    ($name:ident, $bs:expr, $start:expr, [$($ev:expr),*]) => {
        #[kani::proof]
        #[kani::unwind(64)]
        #[kani::stub(std::fmt::format, stub_format)]
        fn $name() {
            drive($bs, [$($ev),*], $start)
        }
    };
}
// size-triggered seal on the second tx, then an empty tx sealed by the timer
bm_h!(c11_run_size_then_empty_s0, 10, 0, [Ev::Tx(4), Ev::Tx(6), Ev::Tx(0), Ev::Timer]);
bm_h!(c11_run_size_then_empty_s1, 10, 1, [Ev::Tx(4), Ev::Tx(6), Ev::Tx(0), Ev::Timer]);
// one oversized tx seals at once; a timer on an empty batch seals nothing; then a timer-triggered batch of two
bm_h!(c11_run_oversize_timer_s0, 10, 0, [Ev::Tx(12), Ev::Timer, Ev::Tx(3), Ev::Tx(2), Ev::Timer]);
// exact threshold, one below, two consecutive size-triggered batches
bm_h!(c11_run_boundary_s1, 8, 1, [Ev::Tx(7), Ev::Tx(1), Ev::Tx(8), Ev::Tx(9)]);
// only empty transactions pending when the timer fires
bm_h!(c11_run_only_empty_s0, 10, 0, [Ev::Tx(0), Ev::Tx(0), Ev::Timer]);
// thorough tier: the other select start index for each schedule, and further schedules
bm_h!(c11_run_oversize_timer_s1, 10, 1, [Ev::Tx(12), Ev::Timer, Ev::Tx(3), Ev::Tx(2), Ev::Timer]);
bm_h!(c11_run_boundary_s0, 8, 0, [Ev::Tx(7), Ev::Tx(1), Ev::Tx(8), Ev::Tx(9)]);
bm_h!(c11_run_only_empty_s1, 10, 1, [Ev::Tx(0), Ev::Tx(0), Ev::Timer]);
bm_h!(c11_run_timer_first_s0, 6, 0, [Ev::Timer, Ev::Tx(1), Ev::Timer, Ev::Tx(5), Ev::Tx(1)]);
bm_h!(c11_run_many_small_s1, 4, 1, [Ev::Tx(1), Ev::Tx(1), Ev::Tx(1), Ev::Tx(1), Ev::Tx(1), Ev::Timer]);
bm_h!(c11_run_batch_size_one_s0, 1, 0, [Ev::Tx(0), Ev::Tx(1), Ev::Tx(2)]);

//! C11 harness attached to mempool/src/processor.rs: the real Processor loop (the block handed to tokio::spawn, made callable
//! by overlay.py:lower_spawn_fn) hashes, stores and announces batches: every batch is stored under the hash of its exact
//! bytes (pre-image recorded by the hash shim), stored byte-for-byte, and announced with that same digest, in arrival order.
#![allow(unused_imports, dead_code)]
use super::*;
use ed25519_dalek::{LAST, RECORD};
use tokio::sync::mpsc::channel;

pub fn stub_format(_args: std::fmt::Arguments<'_>) -> String {
    String::new()
}
fn push<T>(tx: &Sender<T>, v: T) {
    use std::future::Future;
    let w = tokio::noop_waker();
    let mut cx = std::task::Context::from_waker(&w);
    let s = tx.send(v);
    let mut s = std::pin::pin!(s);
    assert!(s.as_mut().poll(&mut cx).is_ready());
}
/// two batches (5 and 3 symbolic bytes), processed one after the other
#[kani::proof]
#[kani::unwind(16)]
#[kani::stub(std::fmt::format, stub_format)]
fn c11_processor_two_batches() {
    store::reset();
    // harness-side look-ups of the two stored batches (slots 0 and 1); the Processor itself never reads the store
    store::script_strict(&[0, 1]);
    let store = Store::new("x").unwrap();
    let probe = store.clone();
    let (tx_batch, rx_batch) = channel::<SerializedBatchMessage>(4);
    let (tx_digest, mut rx_digest) = channel::<Digest>(4);
    let mut task = Processor::verif_spawn(store, rx_batch, tx_digest);
    let a: [u8; 5] = vwit::any_bytes::<5>();
    let b: [u8; 3] = vwit::any_bytes::<3>();
    // the abstract hash is not collision free: the two batches of this run are assumed to hash differently
    {
        let (ha, hb) = (ed25519_dalek::Sha512::digest(&a[..]), ed25519_dalek::Sha512::digest(&b[..]));
        vwit::assume(ha.0[..8] != hb.0[..8]);
    }
    *RECORD.get() = true;
    // first batch
    push(&tx_batch, a.to_vec());
    task();
    {
        let l = LAST.get();
        assert!(l.len == 5, "C11 batch hashed over something other than its exact bytes (length)");
        let mut i = 0;
        while i < 5 {
            assert!(l.bytes[i] == a[i], "C11 batch hashed over something other than its exact bytes");
            i += 1;
        }
    }
    let da = match rx_digest.try_pop() {
        Some(d) => d,
        None => {
            assert!(false, "C11 stored batch not announced");
            Digest::default()
        }
    };
    assert!(rx_digest.len() == 0, "C11 batch announced more than once");
    assert!(probe.writes() == 1 && probe.len() == 1, "C11 batch not stored exactly once");
    match probe.get(&da.to_vec()) {
        Some(v) => {
            assert!(v.len() == 5, "C11 stored batch differs from the received bytes (length)");
            let mut i = 0;
            while i < 5 {
                assert!(v[i] == a[i], "C11 stored batch differs from the received bytes");
                i += 1;
            }
            std::mem::forget(v);
        }
        None => assert!(false, "C11 batch not stored under the announced digest"),
    }
    // second batch: stored under its own digest, announced after the first
    push(&tx_batch, b.to_vec());
    task();
    {
        let l = LAST.get();
        assert!(l.len == 3 && l.bytes[0] == b[0] && l.bytes[1] == b[1] && l.bytes[2] == b[2], "C11 second batch hashed over something other than its exact bytes");
    }
    let db = match rx_digest.try_pop() {
        Some(d) => d,
        None => {
            assert!(false, "C11 second batch not announced");
            Digest::default()
        }
    };
    assert!(db != da, "C11 two different batches announced under one digest");
    {
        assert!(probe.writes() == 2 && probe.len() == 2, "C11 second batch not stored");
        match probe.get(&db.to_vec()) {
            Some(v) => {
                assert!(v.len() == 3 && v[0] == b[0] && v[1] == b[1] && v[2] == b[2], "C11 second stored batch differs from the received bytes");
                std::mem::forget(v);
            }
            None => assert!(false, "C11 second batch not stored under the announced digest"),
        }
    }
    vwit::cover!(a[0] != b[0]);
    std::mem::forget((tx_batch, rx_digest, da, db));
}

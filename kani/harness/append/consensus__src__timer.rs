#[cfg(kani)]
impl Timer {
    /// number of times the timer was (re-)armed (shim Sleep counter)
    pub(crate) fn verif_resets(&self) -> u64 {
        self.sleep.resets
    }
}

#[cfg(kani)]
impl Aggregator {
    pub(crate) fn verif_is_empty(&self) -> bool {
        self.votes_aggregators.is_empty() && self.timeouts_aggregators.is_empty()
    }
}

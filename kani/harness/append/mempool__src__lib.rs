#[cfg(kani)]
pub use crate::config::Authority as VerifAuthority;

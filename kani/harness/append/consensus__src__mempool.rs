#[cfg(kani)]
pub(crate) struct VerifPW(pub(crate) Receiver<PayloadWaiterMessage>);
#[cfg(kani)]
pub(crate) enum VerifPWMsg {
    Wait(Vec<Digest>, Block),
    Cleanup(Round),
}
#[cfg(kani)]
impl VerifPW {
    pub(crate) fn len(&self) -> usize {
        self.0.len()
    }
    pub(crate) fn pop(&mut self) -> Option<VerifPWMsg> {
        self.0.try_pop().map(|m| match m {
            PayloadWaiterMessage::Wait(d, b) => VerifPWMsg::Wait(d, *b),
            PayloadWaiterMessage::Cleanup(r) => VerifPWMsg::Cleanup(r),
        })
    }
}
#[cfg(kani)]
impl MempoolDriver {
    /// struct-literal constructor for harnesses (payload waiter not spawned; its channel is held by the harness)
    pub(crate) fn verif_new(store: Store, tx_mempool: Sender<ConsensusMempoolMessage>) -> (Self, VerifPW) {
        let (tx_payload_waiter, rx) = channel(CHANNEL_CAPACITY);
        (Self { store, tx_mempool, tx_payload_waiter }, VerifPW(rx))
    }
}

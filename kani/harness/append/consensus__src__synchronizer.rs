#[cfg(kani)]
impl Synchronizer {
    /// struct-literal constructor for harnesses (no spawned task: the inner channel's receiver is held by the harness)
    pub(crate) fn verif_new(store: Store, inner_channel: Sender<Block>) -> Self {
        Self { store, inner_channel }
    }
}

//! C17 harnesses attached to consensus/src/config.rs (real `Committee`).
use super::*;
use std::net::{IpAddr, Ipv4Addr, SocketAddr};

pub fn key(i: u8) -> PublicKey {
    let mut k = PublicKey::default();
    k.0[0] = i + 1;
    k
}
pub fn addr(p: u16) -> SocketAddr {
    SocketAddr::new(IpAddr::V4(Ipv4Addr::new(127, 0, 0, 1)), p)
}
/// Committee of `k` authorities with the given stakes (array-backed map filled directly).
pub fn committee_of(stakes: &[Stake]) -> Committee {
    let mut m = kcoll::HashMap::default();
    let mut i = 0;
    while i < stakes.len() {
        m.items[i] = Some((key(i as u8), Authority { stake: stakes[i], address: addr(100 + i as u16) }));
        i += 1;
    }
    m.n = stakes.len();
    Committee { authorities: m, epoch: 1 }
}

fn check_quorum<const K: usize>() {
    let stakes: [Stake; K] = vwit::any_u32s::<K>();
    let mut n: u64 = 0;
    let mut i = 0;
    while i < K {
        n += stakes[i] as u64;
        i += 1;
    }
    vwit::assume(n >= 1 && n < (1u64 << 31));
    let c = committee_of(&stakes);
    let q = c.quorum_threshold() as u64;
    let f = (n - 1) / 3;
    // q > 2n/3 (as rationals), q <= n - f, two quorums intersect in more than f stake
    assert!(3 * q > 2 * n, "C17 q > 2n/3 violated");
    assert!(q <= n - f, "C17 q <= n - f violated");
    assert!(2 * q > n + f, "C17 two quorums do not overlap in more than f");
    // honest authorities alone can form a quorum
    assert!(n - f >= q, "C17 honest stake cannot form a quorum");
    // stake lookup: member -> its stake; unknown -> 0
    let who: u8 = vwit::any_u8();
    vwit::assume((who as usize) < K + 2);
    let s = c.stake(&key(who));
    if (who as usize) < K {
        assert!(s == stakes[who as usize], "C17 stake of a member");
    } else {
        assert!(s == 0, "C17 unknown authority has stake");
    }
    vwit::cover!(n == 4 && q == 3);
    vwit::cover!(n > 1_000_000_000);
    std::mem::forget(c);
}

#[kani::proof]
#[kani::unwind(10)]
fn c17_quorum_k1() { check_quorum::<1>() }
#[kani::proof]
#[kani::unwind(10)]
fn c17_quorum_k2() { check_quorum::<2>() }
#[kani::proof]
#[kani::unwind(10)]
fn c17_quorum_k3() { check_quorum::<3>() }
#[kani::proof]
#[kani::unwind(10)]
fn c17_quorum_k4() { check_quorum::<4>() }
#[kani::proof]
#[kani::unwind(10)]
fn c17_quorum_k5() { check_quorum::<5>() }
#[kani::proof]
#[kani::unwind(10)]
fn c17_quorum_k7() { check_quorum::<7>() }

/// consensus and mempool committees built from the same stakes agree on the threshold and on stake().
fn check_same<const K: usize>() {
    let stakes: [Stake; K] = vwit::any_u32s::<K>();
    let mut n: u64 = 0;
    let mut i = 0;
    while i < K {
        n += stakes[i] as u64;
        i += 1;
    }
    vwit::assume(n >= 1 && n < (1u64 << 31));
    let c = committee_of(&stakes);
    let mut m = kcoll::HashMap::default();
    let mut i = 0;
    while i < K {
        m.items[i] = Some((
            key(i as u8),
            mempool::VerifAuthority { stake: stakes[i], transactions_address: addr(200 + i as u16), mempool_address: addr(300 + i as u16) },
        ));
        i += 1;
    }
    m.n = K;
    let mc = mempool::Committee { authorities: m, epoch: 1 };
    assert!(c.quorum_threshold() == mc.quorum_threshold(), "C17 consensus and mempool thresholds differ");
    let who: u8 = vwit::any_u8();
    vwit::assume((who as usize) < K + 2);
    assert!(c.stake(&key(who)) == mc.stake(&key(who)), "C17 consensus and mempool stakes differ");
    vwit::cover!(c.quorum_threshold() == 3);
    std::mem::forget(c);
    std::mem::forget(mc);
}
#[kani::proof]
#[kani::unwind(10)]
fn c17_same_k4() { check_same::<4>() }
#[kani::proof]
#[kani::unwind(10)]
fn c17_same_k7() { check_same::<7>() }

#[kani::proof]
#[kani::unwind(10)]
fn dbg_const_threshold() {
    let c = committee_of(&[1, 1, 1, 1]);
    let q = c.quorum_threshold();
    let mut i = 0u32;
    while i < q {
        i += 1;
    }
    let s = c.stake(&key(0));
    let mut j = 0u32;
    while j < s + 5 {
        j += 1;
    }
    std::mem::forget(c);
}

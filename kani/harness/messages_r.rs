//! C20 harnesses attached to the real consensus/src/messages.rs in profile R (real 32-byte crypto types, real bincode).
//! The abstract hash of the dalek shim records the exact pre-image each real `digest()` feeds to the hasher.
#![allow(unused_imports, dead_code)]
use super::*;
use ed25519_dalek::{LAST, PRE_CAP, RECORD};

fn any_digest() -> Digest {
    Digest(vwit::any_bytes::<32>())
}
fn any_key() -> PublicKey {
    PublicKey(vwit::any_bytes::<32>())
}
struct Pre {
    bytes: [u8; PRE_CAP],
    len: usize,
}
fn last() -> Pre {
    let l = LAST.get();
    Pre { bytes: l.bytes, len: l.len }
}
fn same(a: &Pre, b: &Pre) -> bool {
    if a.len != b.len {
        return false;
    }
    let mut i = 0;
    while i < PRE_CAP {
        if i < a.len && a.bytes[i] != b.bytes[i] {
            return false;
        }
        i += 1;
    }
    true
}
fn any_block<const K: usize>() -> Block {
    let mut payload = Vec::new();
    let mut i = 0;
    while i < K {
        payload.push(any_digest());
        i += 1;
    }
    Block {
        qc: QC { hash: any_digest(), round: vwit::any_u64(), votes: Vec::new() },
        tc: None,
        author: any_key(),
        round: vwit::any_u64(),
        payload,
        signature: Signature::default(),
    }
}
/// Two blocks with K1 and K2 payload digests: equal pre-images => equal author, round, payload and parent.
fn block_injective<const K1: usize, const K2: usize>() {
    *RECORD.get() = true;
    let a = any_block::<K1>();
    let b = any_block::<K2>();
    let _ = a.digest();
    let pa = last();
    let _ = b.digest();
    let pb = last();
    assert!(pa.len <= PRE_CAP && pb.len <= PRE_CAP, "pre-image longer than the recording buffer");
    if same(&pa, &pb) {
        assert!(a.author == b.author, "C20 block digest does not bind the author");
        assert!(a.round == b.round, "C20 block digest does not bind the round");
        assert!(a.qc.hash == b.qc.hash, "C20 block digest does not bind the parent");
        assert!(a.payload.len() == b.payload.len(), "C20 block digest does not bind the payload length");
        let mut i = 0;
        while i < K1 && i < K2 {
            assert!(a.payload[i] == b.payload[i], "C20 block digest does not bind the payload");
            i += 1;
        }
    }
    // domain separation by length: a block pre-image is never as long as a vote/QC (40) or timeout (16) pre-image
    let v = Vote { hash: any_digest(), round: vwit::any_u64(), author: any_key(), signature: Signature::default() };
    let _ = v.digest();
    let pv = last();
    let t = Timeout { high_qc: QC { hash: any_digest(), round: vwit::any_u64(), votes: Vec::new() }, round: vwit::any_u64(), author: any_key(), signature: Signature::default() };
    let _ = t.digest();
    let pt = last();
    assert!(pa.len != pv.len && pa.len != pt.len && pv.len != pt.len, "C20 pre-images of different message kinds can coincide");
    vwit::cover!(same(&pa, &pb));
    vwit::cover!(!same(&pa, &pb) && pa.len == pb.len);
    std::mem::forget((a, b, v, t));
}
macro_rules! inj_h {
    ($name:ident, $k1:expr, $k2:expr) => {
        #[kani::proof]
        #[kani::unwind(170)]
        fn $name() {
            block_injective::<$k1, $k2>()
        }
    };
}
inj_h!(c20_block_inj_0_0, 0, 0);
inj_h!(c20_block_inj_1_1, 1, 1);
inj_h!(c20_block_inj_2_2, 2, 2);

/// different payload lengths: pre-images differ (so adjacent payload/parent boundaries cannot be confused)
fn block_len_sep<const K1: usize, const K2: usize>() {
    *RECORD.get() = true;
    let a = any_block::<K1>();
    let b = any_block::<K2>();
    let _ = a.digest();
    let pa = last();
    let _ = b.digest();
    let pb = last();
    assert!(!same(&pa, &pb), "C20 blocks with different payload lengths share a pre-image");
    vwit::cover!(pa.len < pb.len);
    std::mem::forget((a, b));
}
#[kani::proof]
#[kani::unwind(170)]
fn c20_block_len_0_1() { block_len_sep::<0, 1>() }
#[kani::proof]
#[kani::unwind(170)]
fn c20_block_len_1_2() { block_len_sep::<1, 2>() }

/// Vote / QC / Timeout / TC-entry pre-images: injective in what they speak about; QC and Vote agree.
#[kani::proof]
#[kani::unwind(170)]
fn c20_vote_qc_timeout() {
    *RECORD.get() = true;
    let v1 = Vote { hash: any_digest(), round: vwit::any_u64(), author: any_key(), signature: Signature::default() };
    let v2 = Vote { hash: any_digest(), round: vwit::any_u64(), author: any_key(), signature: Signature::default() };
    let _ = v1.digest();
    let p1 = last();
    let _ = v2.digest();
    let p2 = last();
    if same(&p1, &p2) {
        assert!(v1.hash == v2.hash && v1.round == v2.round, "C20 vote digest does not bind block and round");
    }
    let qc = QC { hash: v1.hash.clone(), round: v1.round, votes: Vec::new() };
    let _ = qc.digest();
    let pq = last();
    assert!(same(&pq, &p1), "C20 QC digest differs from the digest its votes sign");
    let t1 = Timeout { high_qc: QC { hash: any_digest(), round: vwit::any_u64(), votes: Vec::new() }, round: vwit::any_u64(), author: any_key(), signature: Signature::default() };
    let t2 = Timeout { high_qc: QC { hash: any_digest(), round: vwit::any_u64(), votes: Vec::new() }, round: vwit::any_u64(), author: any_key(), signature: Signature::default() };
    let _ = t1.digest();
    let q1 = last();
    let _ = t2.digest();
    let q2 = last();
    if same(&q1, &q2) {
        assert!(t1.round == t2.round && t1.high_qc.round == t2.high_qc.round, "C20 timeout digest does not bind round and high-QC round");
    }
    assert!(p1.len != q1.len, "C20 vote and timeout pre-images can coincide");
    vwit::cover!(same(&p1, &p2));
    vwit::cover!(same(&q1, &q2));
    std::mem::forget((v1, v2, qc, t1, t2));
}

/// wire round trip through the REAL bincode: same digest, same fields.
#[kani::proof]
#[kani::unwind(70)]
#[kani::stub(std::fmt::format, stub_format)]
#[kani::stub(std::str::from_utf8, stub_from_utf8)]
fn c20_vote_roundtrip() {
    let v = Vote { hash: any_digest(), round: vwit::any_u64(), author: any_key(), signature: Signature::default() };
    let bytes = bincode::serialize(&v).unwrap();
    let v2: Vote = bincode::deserialize(&bytes).unwrap();
    assert!(v2.hash == v.hash && v2.round == v.round && v2.author == v.author, "C20 vote changed by the wire round trip");
    assert!(v2.digest() == v.digest(), "C20 vote digest changed by the wire round trip");
    vwit::cover!(v.round > 5);
    std::mem::forget((v, v2, bytes));
}
pub fn stub_format(_args: std::fmt::Arguments<'_>) -> String {
    String::new()
}
/// base64 key text is ASCII by construction; its UTF-8 validation dominates symbolic execution (trusted-base item)
pub fn stub_from_utf8(v: &[u8]) -> Result<&str, std::str::Utf8Error> {
    Ok(unsafe { std::str::from_utf8_unchecked(v) })
}

/// wire/store round trip of a Block (1 payload digest, embedded QC with 1 vote, no TC) through the REAL bincode.
#[kani::proof]
#[kani::unwind(70)]
#[kani::stub(std::fmt::format, stub_format)]
#[kani::stub(std::str::from_utf8, stub_from_utf8)]
fn c20_block_roundtrip() {
    let mut b = any_block::<1>();
    b.qc.votes.push((any_key(), Signature::default()));
    let bytes = bincode::serialize(&b).unwrap();
    let b2: Block = bincode::deserialize(&bytes).unwrap();
    assert!(b2.author == b.author && b2.round == b.round && b2.qc.hash == b.qc.hash && b2.qc.round == b.qc.round, "C20 block changed by the round trip");
    assert!(b2.payload.len() == 1 && b2.payload[0] == b.payload[0] && b2.qc.votes.len() == 1 && b2.qc.votes[0].0 == b.qc.votes[0].0 && b2.tc.is_none(), "C20 block changed by the round trip");
    assert!(b2.digest() == b.digest(), "C20 block digest changed by the round trip");
    vwit::cover!(b.round > 5);
    std::mem::forget((b, b2, bytes));
}
/// wire round trip of a Timeout (genesis-shaped high QC) through the REAL bincode.
#[kani::proof]
#[kani::unwind(70)]
#[kani::stub(std::fmt::format, stub_format)]
#[kani::stub(std::str::from_utf8, stub_from_utf8)]
fn c20_timeout_roundtrip() {
    let t = Timeout { high_qc: QC { hash: any_digest(), round: vwit::any_u64(), votes: Vec::new() }, round: vwit::any_u64(), author: any_key(), signature: Signature::default() };
    let bytes = bincode::serialize(&t).unwrap();
    let t2: Timeout = bincode::deserialize(&bytes).unwrap();
    assert!(t2.round == t.round && t2.author == t.author && t2.high_qc.round == t.high_qc.round && t2.high_qc.hash == t.high_qc.hash, "C20 timeout changed by the round trip");
    assert!(t2.digest() == t.digest(), "C20 timeout digest changed by the round trip");
    vwit::cover!(t.round > 5);
    std::mem::forget((t, t2, bytes));
}

//! Shared environment for harnesses over the real `Core` (consensus/src/core.rs).
//! The Core is built by struct literal (no spawned tasks); every channel end the Core writes to is
//! held by the harness; the store/network/crypto behind it are the shims of profile L.
#![allow(dead_code)]
use super::*;
pub use crate::config::kani_config_h::{addr, committee_of, key};
use crate::config::Stake;
pub(crate) use crate::mempool::{VerifPW, VerifPWMsg};
use crypto::{Digest, SecretKey, Signature};
use mempool::ConsensusMempoolMessage;
use std::future::Future;
use std::task::{Context, Poll};
pub use tokio::sync::mpsc::channel;

/// Drive a future whose every await point is ready in the shim environment.
/// A Pending here is a harness/shim error and is reported as a failed assertion (never assumed away).
pub fn run_ready<F: Future>(f: F) -> F::Output {
    let mut f = std::pin::pin!(f);
    let w = tokio::noop_waker();
    let mut cx = Context::from_waker(&w);
    match f.as_mut().poll(&mut cx) {
        Poll::Ready(v) => v,
        Poll::Pending => panic!("verif: future unexpectedly pending"),
    }
}
/// Poll once; None when pending.
pub fn poll_once<F: Future>(f: std::pin::Pin<&mut F>) -> Option<F::Output> {
    let w = tokio::noop_waker();
    let mut cx = Context::from_waker(&w);
    match f.poll(&mut cx) {
        Poll::Ready(v) => Some(v),
        Poll::Pending => None,
    }
}

pub struct Env {
    pub core: Core,
    pub rx_proposer: Receiver<ProposerMessage>,
    pub rx_commit: Receiver<Block>,
    pub rx_mempool: Receiver<ConsensusMempoolMessage>,
    /// receiver of the synchronizer's inner channel: blocks parked for a missing parent
    pub rx_sync: Receiver<Block>,
    pub pw: VerifPW,
    pub tx_message: Sender<ConsensusMessage>,
    pub tx_loopback: Sender<Block>,
    pub store: Store,
}

pub fn mk_core(me: u8, stakes: &[Stake]) -> Env {
    let committee = committee_of(stakes);
    let store = Store::new("x").unwrap();
    let (tx_message, rx_message) = channel(10);
    let (tx_loopback, rx_loopback) = channel(10);
    let (tx_proposer, rx_proposer) = channel(10);
    // capacity 1, as in the repository's own core tests: the application may be arbitrarily slow, so a commit path that does
    // not WAIT for room (try_send) loses blocks here, while `send().await` delivers everything in order (see shims/tokio)
    let (tx_commit, rx_commit) = channel(1);
    let (tx_mempool, rx_mempool) = channel(10);
    let (tx_sync, rx_sync) = channel(10);
    let name = key(me);
    let (mempool_driver, pw) = MempoolDriver::verif_new(store.clone(), tx_mempool);
    let core = Core {
        name,
        committee: committee.clone(),
        signature_service: SignatureService::new(SecretKey(name.0)),
        store: store.clone(),
        leader_elector: LeaderElector::new(committee.clone()),
        mempool_driver,
        synchronizer: Synchronizer::verif_new(store.clone(), tx_sync),
        rx_message,
        rx_loopback,
        tx_proposer,
        tx_commit,
        round: 1,
        last_voted_round: 0,
        last_committed_round: 0,
        high_qc: QC::genesis(),
        timer: Timer::new(1000),
        aggregator: Aggregator::new(committee),
        network: SimpleSender::new(),
    };
    Env { core, rx_proposer, rx_commit, rx_mempool, rx_sync, pw, tx_message, tx_loopback, store }
}

pub fn any_digest() -> Digest {
    Digest(crypto::DBytes(vwit::any_bytes::<8>()))
}
pub fn sig(signer: u8, d: &Digest) -> Signature {
    Signature { part1: key(signer).0, part2: (d.0).0 }
}
/// Unsigned-QC block (votes empty): what the Core reads back from its store (stored blocks are never re-verified).
pub fn blk(author: u8, round: Round, parent: Digest, qc_round: Round) -> Block {
    let mut b = Block {
        qc: QC { hash: parent, round: qc_round, votes: Vec::new() },
        tc: None,
        author: key(author),
        round,
        payload: Vec::new(),
        signature: Signature::default(),
    };
    b.signature = sig(author, &b.digest());
    b
}
/// Child of `parent` (qc certifies parent), unsigned QC.
pub fn child(author: u8, round: Round, parent: &Block) -> Block {
    blk(author, round, parent.digest(), parent.round)
}
pub fn qc_of(b: &Block, signers: &[u8]) -> QC {
    let mut qc = QC { hash: b.digest(), round: b.round, votes: Vec::new() };
    let d = qc.digest();
    for s in signers {
        qc.votes.push((key(*s), sig(*s, &d)));
    }
    qc
}
pub fn put_block(env: &mut Env, b: &Block) {
    let v = bincode::serialize(b).unwrap();
    run_ready(env.store.write(b.digest().to_vec(), v));
}
pub fn sent_len() -> usize {
    network::SENT.lock().unwrap().len()
}
pub fn sent_to(i: usize) -> std::net::SocketAddr {
    network::SENT.lock().unwrap()[i].to
}
/// little-endian u64 at byte offset `o` of the i-th sent frame
pub fn sent_u64(i: usize, o: usize) -> u64 {
    let s = &network::SENT.lock().unwrap()[i].data;
    let mut b = [0u8; 8];
    b.copy_from_slice(&s[o..o + 8]);
    u64::from_le_bytes(b)
}
pub fn sent_tag(i: usize) -> u32 {
    let s = &network::SENT.lock().unwrap()[i].data;
    let mut b = [0u8; 4];
    b.copy_from_slice(&s[0..4]);
    u32::from_le_bytes(b)
}
pub const TAG_PROPOSE: u32 = 0;
pub const TAG_VOTE: u32 = 1;
pub const TAG_TIMEOUT: u32 = 2;
pub const TAG_TC: u32 = 3;
/// wire layout of ConsensusMessage::Vote in profile L: tag(4) hash(8) round(8) author(4) sig(12)
pub const VOTE_ROUND_OFF: usize = 12;

/// Representation invariant assumed for arbitrary pre-states (proved inductive by the inv_* harnesses).
pub fn inv(c: &Core) -> bool {
    c.round >= 1 && c.round < (1u64 << 62) && c.last_voted_round <= c.round && c.high_qc.round < c.round
}
/// Arbitrary scalar state satisfying Inv.
pub fn any_state(env: &mut Env) {
    env.core.round = vwit::any_u64();
    env.core.last_voted_round = vwit::any_u64();
    env.core.last_committed_round = vwit::any_u64();
    env.core.high_qc = QC { hash: any_digest(), round: vwit::any_u64(), votes: Vec::new() };
    vwit::assume(inv(&env.core));
    vwit::assume(env.core.last_committed_round <= env.core.high_qc.round);
}

/// Stub for `alloc::fmt::format` (used with -Z stubbing): error messages built with format!/to_string are
/// irrelevant to every property checked here; their construction dominates symbolic execution otherwise.
pub fn stub_format(_args: std::fmt::Arguments<'_>) -> String {
    String::new()
}

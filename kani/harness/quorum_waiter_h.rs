//! C12 harnesses attached to mempool/src/quorum_waiter.rs: the REAL `QuorumWaiter::run` loop driven through the
//! sequential tokio shim; acknowledgement handles are real oneshot receivers whose senders the harness resolves.
#![allow(unused_imports, dead_code)]
use super::*;
use bytes::Bytes;
use std::future::Future;
use std::net::{IpAddr, Ipv4Addr, SocketAddr};
use std::task::{Context, Poll};
use tokio::sync::mpsc::channel;
use tokio::sync::oneshot;

fn addr(p: u16) -> SocketAddr {
    SocketAddr::new(IpAddr::V4(Ipv4Addr::new(127, 0, 0, 1)), p)
}
fn pk(i: u8) -> PublicKey {
    let mut k = PublicKey::default();
    k.0[0] = i + 1;
    k
}
fn committee_of(stakes: &[Stake; 4]) -> Committee {
    let mut m = kcoll::HashMap::default();
    let mut i = 0;
    while i < 4 {
        m.items[i] = Some((pk(i as u8), crate::config::Authority { stake: stakes[i], transactions_address: addr(100 + i as u16), mempool_address: addr(200 + i as u16) }));
        i += 1;
    }
    m.n = 4;
    Committee { authorities: m, epoch: 1 }
}
/// One batch, fully symbolic stakes (own = stakes[0]). The peers in ACKED have acknowledged before the quorum waiter looks at
/// the batch, the others never do. The real run loop (lowered, see overlay.py LOWER_LOOPS / AWAIT_OR_NONE) must hand the
/// batch to consensus iff own stake + acknowledged stake >= quorum threshold, exactly once, bytes unchanged.
fn one_batch<const K: usize>(acked: [usize; K]) {
    tokio::CTL.lock().unwrap().select_start = 0;
    let stakes: [Stake; 4] = vwit::any_u32s::<4>();
    let total: u64 = stakes[0] as u64 + stakes[1] as u64 + stakes[2] as u64 + stakes[3] as u64;
    vwit::assume(total >= 1 && total < (1u64 << 31));
    let committee = committee_of(&stakes);
    let q = committee.quorum_threshold() as u64;
    let (tx_message, rx_message) = channel(10);
    let (tx_batch, mut rx_batch) = channel(10);
    let mut qw = QuorumWaiter { committee: committee.clone(), stake: stakes[0], rx_message, tx_batch };
    let (a1, h1) = oneshot::channel::<Bytes>();
    let (a2, h2) = oneshot::channel::<Bytes>();
    let (a3, h3) = oneshot::channel::<Bytes>();
    let mut acks = [Some(a1), Some(a2), Some(a3)];
    let mut got: u64 = stakes[0] as u64;
    let mut k = 0;
    while k < K {
        let peer = acked[k];
        let a = acks[peer - 1].take().unwrap();
        let _ = a.send(Bytes::from_static(b"Ack"));
        got += stakes[peer] as u64;
        k += 1;
    }
    let c: [u8; 3] = vwit::any_bytes::<3>();
    let batch: Vec<u8> = vec![c[0], c[1], c[2]];
    let w = tokio::noop_waker();
    let mut cx = Context::from_waker(&w);
    {
        let s = tx_message.send(QuorumWaiterMessage { batch, handlers: vec![(pk(1), h1), (pk(2), h2), (pk(3), h3)] });
        let mut s = std::pin::pin!(s);
        assert!(matches!(s.as_mut().poll(&mut cx), Poll::Ready(Ok(()))));
        let f = qw.run();
        let mut f = std::pin::pin!(f);
        assert!(f.as_mut().poll(&mut cx).is_ready(), "lowered run loop did not return when idle");
    }
    if got >= q {
        assert!(rx_batch.len() == 1, "C12 batch not handed to consensus although a quorum acknowledged it (or handed twice)");
        let b = rx_batch.try_pop().unwrap();
        assert!(b.len() == 3 && b[0] == c[0] && b[1] == c[1] && b[2] == c[2], "C12 forwarded batch differs from the acknowledged one");
        std::mem::forget(b);
    } else {
        assert!(rx_batch.len() == 0, "C12 batch handed to consensus before a quorum acknowledged it");
    }
    vwit::cover!(got >= q);
    vwit::cover!(got < q || K == 3);
    std::mem::forget(qw);
    std::mem::forget((tx_message, rx_batch, acks, committee));
}
macro_rules! qw_h {
    ($name:ident, [$($o:expr),*]) => {
        #[kani::proof]
        #[kani::unwind(12)]
        #[kani::stub(std::fmt::format, stub_format)]
        fn $name() {
            one_batch([$($o),*])
        }
    };
}
pub fn stub_format(_args: std::fmt::Arguments<'_>) -> String {
    String::new()
}
qw_h!(c12_acked_none, []);
qw_h!(c12_acked_2, [2]);
qw_h!(c12_acked_31, [3, 1]);
qw_h!(c12_acked_123, [1, 2, 3]);

//! C12 harnesses attached to mempool/src/quorum_waiter.rs: the REAL `QuorumWaiter::run` loop driven through the
//! sequential tokio shim; acknowledgement handles are real oneshot receivers whose senders the harness resolves.
#![allow(unused_imports, dead_code)]
use super::*;
use bytes::Bytes;
use std::future::Future;
use std::net::{IpAddr, Ipv4Addr, SocketAddr};
use std::task::{Context, Poll};
use tokio::sync::mpsc::channel;
use tokio::sync::oneshot;

fn addr(p: u16) -> SocketAddr {
    SocketAddr::new(IpAddr::V4(Ipv4Addr::new(127, 0, 0, 1)), p)
}
fn pk(i: u8) -> PublicKey {
    let mut k = PublicKey::default();
    k.0[0] = i + 1;
    k
}
fn committee_of(stakes: &[Stake; 4]) -> Committee {
    let mut m = kcoll::HashMap::default();
    let mut i = 0;
    while i < 4 {
        m.items[i] = Some((pk(i as u8), crate::config::Authority { stake: stakes[i], transactions_address: addr(100 + i as u16), mempool_address: addr(200 + i as u16) }));
        i += 1;
    }
    m.n = 4;
    Committee { authorities: m, epoch: 1 }
}
/// One batch, symbolic stakes (own = stakes[0]), acknowledgements resolved in the concrete order ORDER (a permutation
/// prefix of the peers 1,2,3; peers not listed never acknowledge). After every acknowledgement the batch must have been
/// forwarded iff own stake + acknowledged stake >= quorum threshold.
fn one_batch<const K: usize>(order: [usize; K]) {
    tokio::CTL.lock().unwrap().select_start = 0;
    let stakes: [Stake; 4] = vwit::any_u32s::<4>();
    let total: u64 = stakes[0] as u64 + stakes[1] as u64 + stakes[2] as u64 + stakes[3] as u64;
    vwit::assume(total >= 1 && total < (1u64 << 31));
    let committee = committee_of(&stakes);
    let q = committee.quorum_threshold() as u64;
    let (tx_message, rx_message) = channel(10);
    let (tx_batch, mut rx_batch) = channel(10);
    let mut qw = QuorumWaiter { committee: committee.clone(), stake: stakes[0], rx_message, tx_batch };
    let (a1, h1) = oneshot::channel::<Bytes>();
    let (a2, h2) = oneshot::channel::<Bytes>();
    let (a3, h3) = oneshot::channel::<Bytes>();
    let mut acks = [Some(a1), Some(a2), Some(a3)];
    let batch: Vec<u8> = vec![7, 7, 7];
    let w = tokio::noop_waker();
    let mut cx = Context::from_waker(&w);
    let mut forwarded = false;
    {
        let mut fut = std::pin::pin!(qw.run());
        let s = tx_message.send(QuorumWaiterMessage { batch, handlers: vec![(pk(1), h1), (pk(2), h2), (pk(3), h3)] });
        let mut s = std::pin::pin!(s);
        assert!(matches!(s.as_mut().poll(&mut cx), Poll::Ready(Ok(()))));
        assert!(fut.as_mut().poll(&mut cx).is_pending(), "C12 quorum waiter task terminated");
        // nothing acknowledged yet: own stake alone
        let mut acked: u64 = stakes[0] as u64;
        let mut k = 0;
        loop {
            let now = rx_batch.len() > 0;
            if now && !forwarded {
                assert!(acked >= q, "C12 batch handed to consensus before a quorum acknowledged it");
                forwarded = true;
            }
            if !forwarded {
                assert!(acked < q || k == 0, "C12 batch withheld although a quorum acknowledged it");
            }
            if k >= K {
                break;
            }
            let peer = order[k];
            let a = acks[peer - 1].take().unwrap();
            let _ = a.send(Bytes::from_static(b"Ack"));
            acked += stakes[peer] as u64;
            assert!(fut.as_mut().poll(&mut cx).is_pending(), "C12 quorum waiter task terminated");
            k += 1;
        }
    }
    assert!(rx_batch.len() <= 1, "C12 batch forwarded twice");
    vwit::cover!(forwarded);
    vwit::cover!(!forwarded);
    std::mem::forget(qw);
    std::mem::forget((tx_message, rx_batch, acks, committee));
}
macro_rules! qw_h {
    ($name:ident, [$($o:expr),*]) => {
        #[kani::proof]
        #[kani::unwind(12)]
        #[kani::stub(std::fmt::format, stub_format)]
        fn $name() {
            one_batch([$($o),*])
        }
    };
}
pub fn stub_format(_args: std::fmt::Arguments<'_>) -> String {
    String::new()
}
qw_h!(c12_acks_123, [1, 2, 3]);
qw_h!(c12_acks_312, [3, 1, 2]);
qw_h!(c12_acks_2_only, [2]);
qw_h!(c12_acks_23, [2, 3]);

/// Equal stakes, two batches in flight one after the other: forwarded in order, bytes unchanged, each only after its own
/// two acknowledgements (acknowledgements of the first batch never count for the second).
#[kani::proof]
#[kani::unwind(12)]
#[kani::stub(std::fmt::format, stub_format)]
fn c12_two_batches() {
    tokio::CTL.lock().unwrap().select_start = 0;
    let committee = committee_of(&[1, 1, 1, 1]);
    let (tx_message, rx_message) = channel(10);
    let (tx_batch, mut rx_batch) = channel(10);
    let mut qw = QuorumWaiter { committee: committee.clone(), stake: 1, rx_message, tx_batch };
    let w = tokio::noop_waker();
    let mut cx = Context::from_waker(&w);
    let c: [u8; 2] = vwit::any_bytes::<2>();
    {
        let mut fut = std::pin::pin!(qw.run());
        // batch A with three handles, batch B with three handles, both queued before anything is acknowledged
        let (a1, h1) = oneshot::channel::<Bytes>();
        let (a2, h2) = oneshot::channel::<Bytes>();
        let (a3, h3) = oneshot::channel::<Bytes>();
        let (b1, g1) = oneshot::channel::<Bytes>();
        let (b2, g2) = oneshot::channel::<Bytes>();
        let (b3, g3) = oneshot::channel::<Bytes>();
        for (batch, hs) in [(vec![c[0], 1u8], vec![(pk(1), h1), (pk(2), h2), (pk(3), h3)]), (vec![c[1], 2u8, 2u8], vec![(pk(1), g1), (pk(2), g2), (pk(3), g3)])] {
            let s = tx_message.send(QuorumWaiterMessage { batch, handlers: hs });
            let mut s = std::pin::pin!(s);
            assert!(matches!(s.as_mut().poll(&mut cx), Poll::Ready(Ok(()))));
        }
        assert!(fut.as_mut().poll(&mut cx).is_pending());
        assert!(rx_batch.len() == 0, "C12 batch forwarded without any acknowledgement");
        // two peers acknowledge B first: B must not overtake A and A must not be forwarded on B's acknowledgements
        let _ = b1.send(Bytes::from_static(b"Ack"));
        let _ = b2.send(Bytes::from_static(b"Ack"));
        assert!(fut.as_mut().poll(&mut cx).is_pending());
        assert!(rx_batch.len() == 0, "C12 acknowledgements of another batch were counted");
        let _ = a1.send(Bytes::from_static(b"Ack"));
        assert!(fut.as_mut().poll(&mut cx).is_pending());
        assert!(rx_batch.len() == 0, "C12 batch forwarded below quorum");
        let _ = a3.send(Bytes::from_static(b"Ack"));
        assert!(fut.as_mut().poll(&mut cx).is_pending());
        // A reached 3 of 4; B already had its two acknowledgements, so it follows immediately
        assert!(rx_batch.len() == 2, "C12 batches not forwarded once their quorum is complete");
        let x = rx_batch.try_pop().unwrap();
        let y = rx_batch.try_pop().unwrap();
        assert!(x.len() == 2 && x[0] == c[0] && x[1] == 1, "C12 first batch changed or overtaken");
        assert!(y.len() == 3 && y[0] == c[1] && y[1] == 2 && y[2] == 2, "C12 second batch changed");
        std::mem::forget((x, y, a2, b3));
    }
    vwit::cover!(c[0] != c[1]);
    std::mem::forget(qw);
    std::mem::forget((tx_message, rx_batch, committee));
}

//! C09 harnesses attached to consensus/src/leader.rs: real RRLeaderElector::get_leader.
#![allow(unused_imports, dead_code)]
use super::*;
use crate::config::kani_config_h::{addr, key};
use crate::config::Authority;

/// Committee of N authorities inserted in a symbolic order (the i-th inserted key is chosen among the remaining ones).
fn permuted_committee<const N: usize>() -> Committee {
    let mut used = [false; N];
    let mut m = kcoll::HashMap::default();
    let mut i = 0;
    while i < N {
        let c: usize = vwit::any_usize();
        vwit::assume(c < N && !used[c]);
        used[c] = true;
        m.items[i] = Some((key(c as u8), Authority { stake: 1, address: addr(100 + c as u16) }));
        i += 1;
    }
    m.n = N;
    Committee { authorities: m, epoch: 1 }
}
fn leader_check<const N: usize>() {
    let c = permuted_committee::<N>();
    let first_inserted = c.authorities.items[0].as_ref().unwrap().0;
    let e = RRLeaderElector::new(c);
    let r: Round = vwit::any_u64();
    vwit::assume(r < u64::MAX - N as u64);
    // sorted order of key(i) is by i: the leader is key(r mod N), whatever the insertion order
    let l = e.get_leader(r);
    assert!(l == key((r % N as u64) as u8), "C09 leader depends on insertion order or is not the sorted round-robin");
    // every authority leads exactly once in N consecutive rounds
    let mut seen = [false; N];
    let mut k = 0;
    while k < N {
        let lk = e.get_leader(r + k as u64);
        let mut m = 0;
        while m < N {
            if lk == key(m as u8) {
                assert!(!seen[m], "C09 an authority leads twice within n consecutive rounds");
                seen[m] = true;
            }
            m += 1;
        }
        k += 1;
    }
    let mut m = 0;
    while m < N {
        assert!(seen[m], "C09 an authority does not lead within n consecutive rounds");
        m += 1;
    }
    vwit::cover!(first_inserted != key(0));
    vwit::cover!(r > (1u64 << 40));
    std::mem::forget(e);
}
#[kani::proof]
#[kani::unwind(12)]
fn c09_leader_n3() { leader_check::<3>() }
#[kani::proof]
#[kani::unwind(12)]
fn c09_leader_n4() { leader_check::<4>() }
#[kani::proof]
#[kani::unwind(12)]
fn c09_leader_n5() { leader_check::<5>() }

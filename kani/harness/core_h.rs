//! Harnesses over the real `Core` handlers (consensus/src/core.rs), profile L.
#![allow(unused_imports)]
use super::kani_core_env::*;
use super::*;
use crypto::{Digest, Signature};

const EQ4: [u32; 4] = [1, 1, 1, 1];

// ===================================================================================== C03: vote rule
/// make_vote, no TC: vote <=> round > last_voted && qc.round + 1 == round, for all u64 values.
#[kani::proof]
#[kani::unwind(10)]
fn c03_make_vote_no_tc() {
    let mut env = mk_core(0, &EQ4);
    let lv: Round = kani::any();
    env.core.last_voted_round = lv;
    let round: Round = kani::any();
    let qcr: Round = kani::any();
    kani::assume(round < u64::MAX && qcr < u64::MAX);
    let block = blk(1, round, any_digest(), qcr);
    let v = run_ready(env.core.make_vote(&block));
    let ok = round > lv && qcr + 1 == round;
    assert!(v.is_some() == ok);
    if let Some(ref v) = v {
        assert!(v.round == round && v.author == key(0) && v.hash == block.digest());
        assert!(env.core.last_voted_round == round);
        assert!(qcr < round);
        // the vote carries this node's (ideal) signature over the vote digest
        assert!(v.signature.verify(&v.digest(), &key(0)).is_ok());
    } else {
        assert!(env.core.last_voted_round == lv);
    }
    kani::cover!(v.is_some());
    kani::cover!(v.is_none() && round > lv);
    std::mem::forget(v);
    std::mem::forget(block);
    std::mem::forget(env);
}

/// make_vote with a TC of exactly 3 entries (quorum of 4 equal stakes), all rounds symbolic.
#[kani::proof]
#[kani::unwind(10)]
fn c03_make_vote_tc() {
    let mut env = mk_core(0, &EQ4);
    let lv: Round = kani::any();
    env.core.last_voted_round = lv;
    let round: Round = kani::any();
    let qcr: Round = kani::any();
    let tcr: Round = kani::any();
    let hq: [Round; 3] = kani::any();
    kani::assume(round < u64::MAX && qcr < u64::MAX && tcr < u64::MAX);
    let mut block = blk(1, round, any_digest(), qcr);
    block.tc = Some(TC {
        round: tcr,
        votes: vec![
            (key(0), Signature::default(), hq[0]),
            (key(1), Signature::default(), hq[1]),
            (key(2), Signature::default(), hq[2]),
        ],
    });
    let v = run_ready(env.core.make_vote(&block));
    let maxhq = hq[0].max(hq[1]).max(hq[2]);
    let ok = round > lv && (qcr + 1 == round || (tcr + 1 == round && qcr >= maxhq));
    assert!(v.is_some() == ok);
    if let Some(ref v) = v {
        assert!(v.round == round && v.author == key(0));
        assert!(env.core.last_voted_round == round);
        // in both branches the block's QC is of a lower round than the block
        assert!(qcr < round || tcr + 1 == round);
    } else {
        assert!(env.core.last_voted_round == lv);
    }
    kani::cover!(v.is_some() && qcr + 1 != round);
    kani::cover!(v.is_none() && tcr + 1 == round && round > lv);
    std::mem::forget(v);
    std::mem::forget(block);
    std::mem::forget(env);
}

// ===================================================================================== C02: commit delivery
/// Chain c[0] <- ... <- c[N-1] (c[0] extends genesis), strictly increasing symbolic rounds with arbitrary gaps.
/// The first `j` blocks were delivered before (last_committed_round = round of c[j-1], or 0).
/// Real `commit(c[N-1])` must deliver exactly c[j..N] oldest first.
fn commit_chain<const N: usize>() {
    let mut env = mk_core(0, &EQ4);
    let r: [Round; N] = kani::any();
    // stack arrays, not Vecs: values read back from heap buffers lose their constant shapes in CBMC
    let mut chain: [Block; N] = std::array::from_fn(|_| Block::default());
    let mut dg: [Digest; N] = std::array::from_fn(|_| Digest::default());
    let mut i = 0;
    while i < N {
        kani::assume(r[i] >= 1 && r[i] < (1u64 << 62));
        if i > 0 {
            kani::assume(r[i] > r[i - 1]);
        }
        let b = if i == 0 { blk(1, r[0], Digest::default(), 0) } else { blk((i % 4) as u8, r[i], dg[i - 1].clone(), r[i - 1]) };
        let d = b.digest();
        // collision freedom of the abstract hash on this universe (assumed, see shims/ed25519-dalek)
        let mut a = 0;
        while a < i {
            kani::assume(dg[a] != d);
            a += 1;
        }
        kani::assume(d != Digest::default());
        env.store.preload(d.to_vec(), bincode::serialize(&b).unwrap());
        chain[i] = b;
        dg[i] = d;
        i += 1;
    }
    // the i-th parent lookup of the ancestor walk resolves to slot N-2-i (asserted by the store shim)
    let mut sc = [0i8; N];
    let mut q = 0;
    while q + 1 < N {
        sc[q] = (N - 2 - q) as i8;
        q += 1;
    }
    store::script_strict(&sc[..N - 1]);
    let j: usize = kani::any();
    kani::assume(j < N);
    let lc = if j == 0 { 0 } else { r[j - 1] };
    env.core.last_committed_round = lc;
    let res = run_ready(env.core.commit(chain[N - 1].clone()));
    assert!(res.is_ok());
    assert!(env.core.last_committed_round == r[N - 1]);
    // delivered sequence == c[j], c[j+1], ..., c[N-1]
    let mut k = j;
    while k < N {
        match env.rx_commit.try_pop() {
            Some(d) => {
                assert!(d.round == r[k], "delivered out of order / wrong block");
                assert!(d.qc.hash == chain[k].qc.hash && d.author == chain[k].author, "delivered a different block");
                std::mem::forget(d);
            }
            None => assert!(false, "committed block not delivered"),
        }
        k += 1;
    }
    assert!(env.rx_commit.len() == 0, "extra block delivered (duplicate or genesis placeholder)");
    kani::cover!(j == 0);
    kani::cover!(j == N - 1);
    kani::cover!(j == 0 && r[0] > 1);
    // committing again (same or older head) delivers nothing
    let again = run_ready(env.core.commit(chain[N - 1].clone()));
    assert!(again.is_ok() && env.rx_commit.len() == 0);
    std::mem::forget(again);
    std::mem::forget(res);
    std::mem::forget(chain);
    std::mem::forget(dg);
    std::mem::forget(env);
}
#[kani::proof]
#[kani::unwind(12)]
#[kani::stub(std::fmt::format, stub_format)]
fn c02_commit_chain1() { commit_chain::<1>() }
#[kani::proof]
#[kani::unwind(12)]
#[kani::stub(std::fmt::format, stub_format)]
fn c02_commit_chain2() { commit_chain::<2>() }
#[kani::proof]
#[kani::unwind(12)]
#[kani::stub(std::fmt::format, stub_format)]
fn c02_commit_chain3() { commit_chain::<3>() }
#[kani::proof]
#[kani::unwind(12)]
#[kani::stub(std::fmt::format, stub_format)]
fn c02_commit_chain4() { commit_chain::<4>() }

// ===================================================================================== debugging aids (not part of any check)
#[kani::proof]
#[kani::unwind(12)]
fn dbg_ser_de() {
    let b = blk(1, kani::any(), any_digest(), kani::any());
    let bytes = bincode::serialize(&b).unwrap();
    let b2: Block = bincode::deserialize(&bytes).unwrap();
    assert!(b2.round == b.round);
    std::mem::forget(b);
    std::mem::forget(b2);
    std::mem::forget(bytes);
}
#[kani::proof]
#[kani::unwind(12)]
fn dbg_store_de() {
    let b = blk(1, kani::any(), any_digest(), kani::any());
    let bytes = bincode::serialize(&b).unwrap();
    let mut store = Store::new("x").unwrap();
    store.preload(b.digest().to_vec(), bytes);
    store::script(&[0]);
    let got = run_ready(store.read(b.digest().to_vec())).unwrap().unwrap();
    let b2: Block = bincode::deserialize(&got).unwrap();
    assert!(b2.round == b.round);
    std::mem::forget(b);
    std::mem::forget(b2);
    std::mem::forget(got);
    std::mem::forget(store);
}

//! Harnesses over the real `Core` handlers (consensus/src/core.rs), profile L.
#![allow(unused_imports)]
use super::kani_core_env::*;
use super::*;
use crypto::{Digest, Signature};

const EQ4: [u32; 4] = [1, 1, 1, 1];

// ===================================================================================== C03: vote rule
/// make_vote, no TC: vote <=> round > last_voted && qc.round + 1 == round, for all u64 values.
#[kani::proof]
#[kani::unwind(10)]
fn c03_make_vote_no_tc() {
    let mut env = mk_core(0, &EQ4);
    let lv: Round = vwit::any_u64();
    env.core.last_voted_round = lv;
    let round: Round = vwit::any_u64();
    let qcr: Round = vwit::any_u64();
    vwit::assume(round < u64::MAX && qcr < u64::MAX);
    let block = blk(1, round, any_digest(), qcr);
    let v = run_ready(env.core.make_vote(&block));
    let ok = round > lv && qcr + 1 == round;
    assert!(v.is_some() == ok, "C03 vote decision differs from the voting rule (no TC)");
    if let Some(ref v) = v {
        assert!(v.round == round && v.author == key(0) && v.hash == block.digest(), "C03 vote fields");
        assert!(env.core.last_voted_round == round, "C03 last_voted_round not raised by a vote");
        assert!(qcr < round, "C03 voted block QC not below the block round");
        // the vote carries this node's (ideal) signature over the vote digest
        assert!(v.signature.verify(&v.digest(), &key(0)).is_ok(), "C03 vote not signed by the node");
    } else {
        assert!(env.core.last_voted_round == lv, "C03 last_voted_round changed without a vote");
    }
    vwit::cover!(v.is_some());
    vwit::cover!(v.is_none() && round > lv);
    std::mem::forget(v);
    std::mem::forget(block);
    std::mem::forget(env);
}

/// make_vote with a TC of exactly 3 entries (quorum of 4 equal stakes), all rounds symbolic.
#[kani::proof]
#[kani::unwind(10)]
fn c03_make_vote_tc() {
    let mut env = mk_core(0, &EQ4);
    let lv: Round = vwit::any_u64();
    env.core.last_voted_round = lv;
    let round: Round = vwit::any_u64();
    let qcr: Round = vwit::any_u64();
    let tcr: Round = vwit::any_u64();
    let hq: [Round; 3] = vwit::any_u64s::<3>();
    vwit::assume(round < u64::MAX && qcr < u64::MAX && tcr < u64::MAX);
    let mut block = blk(1, round, any_digest(), qcr);
    block.tc = Some(TC {
        round: tcr,
        votes: vec![
            (key(0), Signature::default(), hq[0]),
            (key(1), Signature::default(), hq[1]),
            (key(2), Signature::default(), hq[2]),
        ],
    });
    let v = run_ready(env.core.make_vote(&block));
    let maxhq = hq[0].max(hq[1]).max(hq[2]);
    let ok = round > lv && (qcr + 1 == round || (tcr + 1 == round && qcr >= maxhq));
    assert!(v.is_some() == ok, "C03 vote decision differs from the voting rule (TC branch)");
    if let Some(ref v) = v {
        assert!(v.round == round && v.author == key(0), "C03 vote fields");
        assert!(env.core.last_voted_round == round, "C03 last_voted_round not raised by a vote");
        // in both branches the block's QC is of a lower round than the block
        assert!(qcr < round || tcr + 1 == round, "C03 voted block QC not below the block round");
    } else {
        assert!(env.core.last_voted_round == lv, "C03 last_voted_round changed without a vote");
    }
    vwit::cover!(v.is_some() && qcr + 1 != round);
    vwit::cover!(v.is_none() && tcr + 1 == round && round > lv);
    std::mem::forget(v);
    std::mem::forget(block);
    std::mem::forget(env);
}

// ===================================================================================== C02: commit delivery
/// One scenario: chain c[0] <- ... <- c[N-1] above genesis with the given rounds, the first `j` blocks delivered
/// before (last_committed_round = round of c[j-1], or 0). Real `commit(c[N-1])` must deliver exactly c[j..N],
/// oldest first, nothing else (no duplicate, no genesis placeholder), and be idempotent.
/// Block contents (payload digest bytes, parent digests, signatures) are symbolic; the rounds are concrete because
/// they decide the control flow of the ancestor walk (loop count, queue indices): see DESIGN.md, C02.
fn commit_scenario<const N: usize>(r: [Round; N], j: usize) {
    store::reset();
    let mut env = mk_core(0, &EQ4);
    // plain locals (no Vec / array of blocks): values read back from aggregates lose their concrete shapes in CBMC
    let b0 = blk(1, r[0], Digest::default(), 0);
    let d0 = b0.digest();
    env.store.preload(d0.to_vec(), bincode::serialize(&b0).unwrap());
    let b1 = if N > 1 { blk(2, r[1 % N], d0.clone(), r[0]) } else { Block::default() };
    let d1 = b1.digest();
    if N > 1 {
        env.store.preload(d1.to_vec(), bincode::serialize(&b1).unwrap());
    }
    let b2 = if N > 2 { blk(3, r[2 % N], d1.clone(), r[1 % N]) } else { Block::default() };
    let d2 = b2.digest();
    if N > 2 {
        env.store.preload(d2.to_vec(), bincode::serialize(&b2).unwrap());
    }
    let b3 = if N > 3 { blk(0, r[3 % N], d2.clone(), r[2 % N]) } else { Block::default() };
    let d3 = b3.digest();
    if N > 3 {
        env.store.preload(d3.to_vec(), bincode::serialize(&b3).unwrap());
    }
    // the i-th parent lookup of the ancestor walk resolves to slot N-2-i (asserted by the store shim)
    match N {
        1 => store::script_strict(&[]),
        2 => store::script_strict(&[0]),
        3 => store::script_strict(&[1, 0]),
        _ => store::script_strict(&[2, 1, 0]),
    }
    let lc = if j == 0 { 0 } else { r[j - 1] };
    env.core.last_committed_round = lc;
    let head = match N {
        1 => b0.clone(),
        2 => b1.clone(),
        3 => b2.clone(),
        _ => b3.clone(),
    };
    let res = run_ready(env.core.commit(head));
    assert!(res.is_ok());
    assert!(env.core.last_committed_round == r[N - 1], "C02 watermark last_committed_round is not the round of the newest delivered block");
    let mut k = j;
    while k < N {
        let exp = match k {
            0 => &b0,
            1 => &b1,
            2 => &b2,
            _ => &b3,
        };
        match env.rx_commit.try_pop() {
            Some(d) => {
                assert!(d.round == r[k], "C02 delivered out of chain order");
                assert!(d.qc.hash == exp.qc.hash && d.author == exp.author, "C02 delivered a different block");
                std::mem::forget(d);
            }
            None => assert!(false, "C02 committed block not delivered"),
        }
        k += 1;
    }
    assert!(env.rx_commit.len() == 0, "C02 extra block delivered (duplicate or genesis placeholder)");
    let head2 = match N {
        1 => b0.clone(),
        2 => b1.clone(),
        3 => b2.clone(),
        _ => b3.clone(),
    };
    let again = run_ready(env.core.commit(head2));
    assert!(again.is_ok() && env.rx_commit.len() == 0, "C02 second commit of the same head delivered something");
    std::mem::forget(again);
    std::mem::forget(res);
    std::mem::forget((b0, b1, b2, b3, d0, d1, d2, d3));
    std::mem::forget(env);
}
/// One gap pattern (bit i of PAT set: the step up to block i is GAP rounds instead of 1) and one delivered prefix J.
fn commit_pattern<const N: usize>(pat: usize, gap: u64, j: usize) {
    let mut r = [0u64; N];
    let mut prev = 0u64;
    let mut i = 0;
    while i < N {
        prev += if (pat >> i) & 1 == 1 { gap } else { 1 };
        r[i] = prev;
        i += 1;
    }
    commit_scenario::<N>(r, j);
    vwit::cover!(true);
}
macro_rules! commit_h {
    ($name:ident, $n:expr, $pat:expr, $gap:expr, $j:expr) => {
        #[kani::proof]
        #[kani::unwind(12)]
        #[kani::stub(std::fmt::format, stub_format)]
        fn $name() {
            commit_pattern::<$n>($pat, $gap, $j)
        }
    };
}
include!("c02_generated.rs");

// ===================================================================================== process_block (C03, C05, C10)
/// Environment for one real `process_block(blk)`: stored 2-chain genesis <- b0 <- b1 with concrete rounds (B0R, B1R) and a
/// concrete delivered watermark LC (they decide the control flow of the commit path); everything about the new block
/// (round, TC, author) and about the node (round, last_voted_round, high_qc) is symbolic.
pub(crate) struct PB {
    pub(crate) env: Env,
    pub(crate) blk: Block,
    pub(crate) pre_round: Round,
    pub(crate) pre_lv: Round,
    pub(crate) pre_hq: Round,
}
pub(crate) fn pb_setup_pub(b0r: Round, b1r: Round, lc: Round, cur_round: Round) -> PB {
    pb_setup(b0r, b1r, lc, false, cur_round)
}
/// `cur_round` (the node's current round) is concrete per harness and the node is chosen so that it does not lead
/// cur_round + 1: the self-addressed vote path (vote -> own aggregator -> certificate path) is covered by hv_single /
/// hv_quorum and would multiply the cost here.
fn pb_setup(b0r: Round, b1r: Round, lc: Round, with_tc: bool, cur_round: Round) -> PB {
    pb_setup2(b0r, b1r, lc, with_tc, cur_round, None)
}
/// `b1_tc`: the stored, certified block b1 itself carries a TC of that round (it was proposed after a view change).
fn pb_setup2(b0r: Round, b1r: Round, lc: Round, with_tc: bool, cur_round: Round, b1_tc: Option<Round>) -> PB {
    store::reset();
    let me = ((cur_round + 2) % 4) as u8;
    let mut env = mk_core(me, &EQ4);
    let b0 = blk(1, b0r, Digest::default(), 0);
    let d0 = b0.digest();
    env.store.preload(d0.to_vec(), bincode::serialize(&b0).unwrap());
    let mut b1 = blk(2, b1r, d0.clone(), b0r);
    if let Some(tcr) = b1_tc {
        b1.tc = Some(TC { round: tcr, votes: vec![(key(0), Signature::default(), 0), (key(1), Signature::default(), 0), (key(3), Signature::default(), 0)] });
    }
    let d1 = b1.digest();
    env.store.preload(d1.to_vec(), bincode::serialize(&b1).unwrap());
    vwit::assume(d0 != d1 && d0 != Digest::default() && d1 != Digest::default());
    // lookups of one process_block: parent(blk) = b1 (slot 1), parent(b1) = b0 (slot 0); nothing else
    store::script_strict(&[1, 0]);
    env.core.round = cur_round;
    env.core.last_voted_round = vwit::any_u64();
    env.core.last_committed_round = lc;
    env.core.high_qc = QC { hash: d1.clone(), round: vwit::any_u64(), votes: Vec::new() };
    vwit::assume(inv(&env.core));
    let r: Round = vwit::any_u64();
    let author: u8 = vwit::any_u8();
    vwit::assume(r > b1r && r < (1u64 << 62) && author < 4);
    let mut b = blk(author, r, d1.clone(), b1r);
    if with_tc {
        let tcr: Round = vwit::any_u64();
        let hq: [Round; 3] = vwit::any_u64s::<3>();
        vwit::assume(tcr < (1u64 << 62));
        b.tc = Some(TC {
            round: tcr,
            votes: vec![
                (key(0), Signature::default(), hq[0]),
                (key(1), Signature::default(), hq[1]),
                (key(2), Signature::default(), hq[2]),
            ],
        });
        b.signature = sig(author, &b.digest());
    }
    vwit::assume(b.digest() != d0 && b.digest() != d1);
    let (pre_round, pre_lv, pre_hq) = (env.core.round, env.core.last_voted_round, env.core.high_qc.round);
    std::mem::forget((b0, b1, d0, d1));
    PB { env, blk: b, pre_round, pre_lv, pre_hq }
}
/// Did the step emit a vote? Returns Some(vote round) if a Vote left the node (wire) or was self-delivered to the aggregator.
fn pb_vote_out(pb: &PB) -> Option<Round> {
    if sent_len() == 1 {
        assert!(sent_tag(0) == TAG_VOTE, "C03 something other than a vote was sent");
        Some(sent_u64(0, VOTE_ROUND_OFF))
    } else {
        assert!(sent_len() == 0, "C03 more than one message sent by one process_block");
        None
    }
}
fn process_block_check(b0r: Round, b1r: Round, lc: Round, with_tc: bool, cur_round: Round) {
    process_block_check2(b0r, b1r, lc, with_tc, cur_round, None)
}
fn process_block_check2(b0r: Round, b1r: Round, lc: Round, with_tc: bool, cur_round: Round, b1_tc: Option<Round>) {
    let mut pb = pb_setup2(b0r, b1r, lc, with_tc, cur_round, b1_tc);
    let res = run_ready(pb.env.core.process_block(&pb.blk));
    assert!(res.is_ok());
    let r = pb.blk.round;
    // ---- C03: vote decision (observed through last_voted_round and the wire)
    let (tc_ok, tc_round_ok) = match &pb.blk.tc {
        Some(tc) => {
            let m = tc.votes[0].2.max(tc.votes[1].2).max(tc.votes[2].2);
            (tc.round + 1 == r && b1r >= m, tc.round + 1 == r)
        }
        None => (false, false),
    };
    let may_vote = r == pb.pre_round && r > pb.pre_lv && (b1r + 1 == r || tc_ok);
    let next_leader_is_me = false;
    if may_vote {
        assert!(pb.env.core.last_voted_round == r, "C03 vote expected: last_voted_round not raised to the block round");
        if !next_leader_is_me {
            let v = pb_vote_out(&pb);
            assert!(v == Some(r), "C03 vote expected on the wire with the block's round");
            assert!(sent_to(0) == addr(100 + ((pb.pre_round + 1) % 4) as u16), "C09 vote not addressed to the next round's leader");
        } else {
            assert!(sent_len() == 0, "C03 self-addressed vote must not hit the wire");
        }
    } else {
        assert!(pb.env.core.last_voted_round == pb.pre_lv, "C03 no vote expected: last_voted_round changed");
        assert!(sent_len() == 0, "C03 vote emitted although the voting rule forbids it");
    }
    let _ = tc_round_ok;
    // ---- C05: commit exactly on a consecutive-round 2-chain; C02: deliver b0 unless already delivered
    if b0r + 1 == b1r && lc < b0r {
        assert!(pb.env.rx_commit.len() >= 1, "C05 consecutive certified 2-chain not committed");
        let d = pb.env.rx_commit.try_pop().unwrap();
        assert!(d.round == b0r, "C05 committed block is not the head of the 2-chain");
        std::mem::forget(d);
        assert!(pb.env.rx_commit.len() == 0, "C02 extra block delivered");
        assert!(pb.env.core.last_committed_round == b0r);
    } else {
        assert!(pb.env.rx_commit.len() == 0, "C05 commit without a consecutive-round certified 2-chain");
        assert!(pb.env.core.last_committed_round == lc);
    }
    // ---- C10: processing a block (without its certificates) never moves the round or the high QC
    assert!(pb.env.core.round == pb.pre_round, "C10 round changed by process_block");
    assert!(pb.env.core.high_qc.round == pb.pre_hq, "C10 high_qc changed by process_block");
    // the block is stored once
    assert!(pb.env.store.writes() == 1 && pb.env.store.len() == 3, "verif-script: process_block is expected to store the block exactly once");
    vwit::cover!(may_vote);
    vwit::cover!(!may_vote && r == pb.pre_round);
    std::mem::forget(res);
    std::mem::forget(pb);
}
macro_rules! pb_h {
    ($name:ident, $b0:expr, $b1:expr, $lc:expr, $tc:expr, $cur:expr) => {
        #[kani::proof]
        #[kani::unwind(12)]
        #[kani::stub(std::fmt::format, stub_format)]
        fn $name() {
            process_block_check($b0, $b1, $lc, $tc, $cur)
        }
    };
}
pb_h!(pb_consec_notc, 5, 6, 4, false, 7);
pb_h!(pb_consec_tc, 5, 6, 4, true, 9);
pb_h!(pb_gap_notc, 5, 7, 4, false, 8);
pb_h!(pb_gap_tc, 5, 7, 4, true, 10);
pb_h!(pb_consec_delivered_notc, 5, 6, 5, false, 7);
pb_h!(pb_first_notc, 1, 2, 0, false, 3);
// thorough tier: other round shapes
pb_h!(pb_gap3_notc, 5, 8, 4, false, 9);
pb_h!(pb_gap_delivered_tc, 5, 7, 5, true, 8);
pb_h!(pb_first_gap_tc, 1, 3, 0, true, 4);
/// b0(5) <- b1(7, proposed after a view change: carries the TC of round 6) <- block: a TC on b1 does not make (b0, b1) a
/// consecutive-round 2-chain, nothing is committed.
#[kani::proof]
#[kani::unwind(12)]
#[kani::stub(std::fmt::format, stub_format)]
fn pb_gap_b1tc_notc() {
    process_block_check2(5, 7, 4, false, 8, Some(6))
}

// ===================================================================================== debugging aids (not part of any check)
#[kani::proof]
#[kani::unwind(12)]
fn dbg_ser_de() {
    let b = blk(1, vwit::any_u64(), any_digest(), vwit::any_u64());
    let bytes = bincode::serialize(&b).unwrap();
    let b2: Block = bincode::deserialize(&bytes).unwrap();
    assert!(b2.round == b.round);
    std::mem::forget(b);
    std::mem::forget(b2);
    std::mem::forget(bytes);
}
#[kani::proof]
#[kani::unwind(12)]
fn dbg_store_de() {
    let b = blk(1, vwit::any_u64(), any_digest(), vwit::any_u64());
    let bytes = bincode::serialize(&b).unwrap();
    let mut store = Store::new("x").unwrap();
    store.preload(b.digest().to_vec(), bytes);
    store::script(&[0]);
    let got = run_ready(store.read(b.digest().to_vec())).unwrap().unwrap();
    let b2: Block = bincode::deserialize(&got).unwrap();
    assert!(b2.round == b.round);
    std::mem::forget(b);
    std::mem::forget(b2);
    std::mem::forget(got);
    std::mem::forget(store);
}
#[kani::proof]
#[kani::unwind(12)]
#[kani::stub(std::fmt::format, stub_format)]
fn dbg_commit_one() {
    commit_scenario::<2>([1, 2], 0);
}
#[kani::proof]
#[kani::unwind(12)]
#[kani::stub(std::fmt::format, stub_format)]
fn dbg_parent_one() {
    store::reset();
    let mut env = mk_core(0, &EQ4);
    let b0 = blk(1, 1, Digest::default(), 0);
    let d0 = b0.digest();
    env.store.preload(d0.to_vec(), bincode::serialize(&b0).unwrap());
    let b1 = blk(2, 2, d0.clone(), 1);
    store::script_strict(&[0]);
    let p = run_ready(env.core.synchronizer.get_parent_block(&b1)).unwrap().unwrap();
    assert!(p.round == 1);
    let mut cnt = 0u64;
    while cnt < p.round {
        cnt += 1;
    }
    let mut cnt2 = 0usize;
    while cnt2 < p.qc.votes.len() + 1 {
        cnt2 += 1;
    }
    let g = run_ready(env.core.synchronizer.get_parent_block(&p)).unwrap().unwrap();
    assert!(g.round == 0);
    std::mem::forget(p);
    std::mem::forget(g);
    std::mem::forget(b1);
    std::mem::forget(b0);
    std::mem::forget(env);
}

/// Symbolic-round variant for a 2-chain: rounds r0 < r1 arbitrary, delivered prefix symbolic.
#[kani::proof]
#[kani::unwind(12)]
#[kani::stub(std::fmt::format, stub_format)]
fn c02_commit_sym2() {
    store::reset();
    let mut env = mk_core(0, &EQ4);
    let r0: Round = vwit::any_u64();
    let r1: Round = vwit::any_u64();
    vwit::assume(r0 >= 1 && r1 > r0 && r1 < (1u64 << 62));
    let b0 = blk(1, r0, Digest::default(), 0);
    let d0 = b0.digest();
    env.store.preload(d0.to_vec(), bincode::serialize(&b0).unwrap());
    let b1 = blk(2, r1, d0.clone(), r0);
    store::script_strict(&[0]);
    let j: usize = vwit::any_usize();
    vwit::assume(j < 2);
    let lc = if j == 0 { 0 } else { r0 };
    env.core.last_committed_round = lc;
    let res = run_ready(env.core.commit(b1.clone()));
    assert!(res.is_ok());
    assert!(env.core.last_committed_round == r1, "C02 watermark last_committed_round is not the round of the newest delivered block");
    if j == 0 {
        let d = env.rx_commit.try_pop();
        assert!(d.is_some(), "C02 committed block not delivered");
        let d = d.unwrap();
        assert!(d.round == r0, "C02 delivered out of chain order");
        std::mem::forget(d);
    }
    let d = env.rx_commit.try_pop();
    assert!(d.is_some(), "C02 committed block not delivered");
    let d = d.unwrap();
    assert!(d.round == r1, "C02 delivered out of chain order");
    std::mem::forget(d);
    assert!(env.rx_commit.len() == 0, "C02 extra block delivered (duplicate or genesis placeholder)");
    vwit::cover!(j == 0 && r0 > 1);
    vwit::cover!(j == 1 && r1 > r0 + 1);
    std::mem::forget(res);
    std::mem::forget((b0, b1, d0));
    std::mem::forget(env);
}

// ===================================================================================== C01: rule extraction (cover queries only)
/// No assertion here: each cover asks the solver whether the REAL code can take a node-local step that the bounded
/// agreement model (smt/agree.py) would have to allow. The answers (SATISFIED / UNSATISFIABLE) are read by the C01 engine
/// and become the model's knobs, so the model is regenerated from the code on every run.
#[kani::proof]
#[kani::unwind(10)]
fn c01_rules_vote() {
    let mut env = mk_core(0, &EQ4);
    let lv: Round = vwit::any_u64();
    env.core.last_voted_round = lv;
    let round: Round = vwit::any_u64();
    let qcr: Round = vwit::any_u64();
    let tcr: Round = vwit::any_u64();
    let hq: [Round; 3] = vwit::any_u64s::<3>();
    vwit::assume(round < (1u64 << 62) && qcr < (1u64 << 62) && tcr < (1u64 << 62) && hq[0] < (1u64 << 62) && hq[1] < (1u64 << 62) && hq[2] < (1u64 << 62));
    let mut block = blk(1, round, any_digest(), qcr);
    block.tc = Some(TC {
        round: tcr,
        votes: vec![
            (key(0), Signature::default(), hq[0]),
            (key(1), Signature::default(), hq[1]),
            (key(2), Signature::default(), hq[2]),
        ],
    });
    let v = run_ready(env.core.make_vote(&block));
    let voted = v.is_some();
    let maxhq = hq[0].max(hq[1]).max(hq[2]);
    vwit::cover!(voted && round == lv, "RULE vote_at_equal_round");
    vwit::cover!(voted && round < lv, "RULE vote_below_last_voted");
    vwit::cover!(voted && qcr + 1 != round && tcr + 1 != round, "RULE vote_without_consecutive_certificate");
    vwit::cover!(voted && qcr + 1 != round && tcr + 1 == round && qcr + 1 == maxhq, "RULE tc_vote_qc_one_below_max_high_qc");
    vwit::cover!(voted && qcr + 1 != round && tcr + 1 == round && qcr + 2 <= maxhq, "RULE tc_vote_qc_far_below_max_high_qc");
    vwit::cover!(voted && qcr + 1 == round && round > lv, "RULE sanity_qc_vote_possible");
    vwit::cover!(voted && qcr + 1 != round && tcr + 1 == round && qcr >= maxhq && round > lv, "RULE sanity_tc_vote_possible");
    vwit::cover!(voted && env.core.last_voted_round < round, "RULE vote_does_not_record_round");
    // quorum threshold of the 4 x stake 1 committee used by the model
    let q = env.core.committee.quorum_threshold();
    vwit::cover!(q == 1, "RULE q_is_1");
    vwit::cover!(q == 2, "RULE q_is_2");
    vwit::cover!(q == 3, "RULE q_is_3");
    vwit::cover!(q >= 4, "RULE q_is_4_or_more");
    std::mem::forget(v);
    std::mem::forget(block);
    std::mem::forget(env);
}
/// same without a TC
#[kani::proof]
#[kani::unwind(10)]
fn c01_rules_vote_notc() {
    let mut env = mk_core(0, &EQ4);
    let lv: Round = vwit::any_u64();
    env.core.last_voted_round = lv;
    let round: Round = vwit::any_u64();
    let qcr: Round = vwit::any_u64();
    vwit::assume(round < (1u64 << 62) && qcr < (1u64 << 62));
    let block = blk(1, round, any_digest(), qcr);
    let v = run_ready(env.core.make_vote(&block));
    let voted = v.is_some();
    vwit::cover!(voted && round == lv, "RULE vote_at_equal_round");
    vwit::cover!(voted && round < lv, "RULE vote_below_last_voted");
    vwit::cover!(voted && qcr + 1 != round, "RULE vote_without_consecutive_certificate");
    vwit::cover!(voted && qcr + 1 == round && round > lv, "RULE sanity_qc_vote_possible");
    std::mem::forget(v);
    std::mem::forget(block);
    std::mem::forget(env);
}

//! C08 harnesses attached to consensus/src/mempool.rs: the real `PayloadWaiter::waiter` coroutine (the future that parks a
//! proposal whose batches are missing) polled by the harness against the store shim: it completes with the block only once
//! EVERY missing batch is stored, in either arrival order, and with nothing when it is cancelled first.
//! NOT IN ANY SPEC: measured intractable (the coroutine's state holds the Vec of futures; symbolic execution of the first
//! poll did not finish in 900 s even with try_join_all replaced by the array shim). Kept as the record of the attempt; the
//! seeded change C08-1 (waiter completes on the first batch) is therefore outside the partial C08 claim.
#![allow(unused_imports, dead_code)]
use super::*;
use crate::core::kani_core_env::{blk, poll_once};
use crypto::DBytes;

pub fn stub_format(_args: std::fmt::Arguments<'_>) -> String {
    String::new()
}

/// order 0: batch A arrives first, then B; order 1: B first, then A.
fn waiter_all(order: u8) {
    store::reset();
    let mut st = Store::new("x").unwrap();
    let da = Digest(DBytes([1; 8]));
    let db = Digest(DBytes([2; 8]));
    let (tx_cancel, rx_cancel) = channel::<()>(1);
    let mut b = blk(1, 7, Digest(DBytes([5; 8])), 6);
    b.payload = vec![da.clone(), db.clone()];
    let missing = vec![(da.clone(), st.clone()), (db.clone(), st.clone())];
    let fut = PayloadWaiter::waiter(missing, Box::new(b), rx_cancel);
    let mut fut = std::pin::pin!(fut);
    assert!(poll_once(fut.as_mut()).is_none(), "C08 parked proposal released with no batch stored");
    let (first, second) = if order == 0 { (&da, &db) } else { (&db, &da) };
    st.preload(first.to_vec(), vec![7u8]);
    assert!(poll_once(fut.as_mut()).is_none(), "C08 parked proposal released while a batch is still missing");
    st.preload(second.to_vec(), vec![8u8]);
    match poll_once(fut.as_mut()) {
        Some(Ok(Some(blk))) => {
            assert!(blk.round == 7 && blk.payload.len() == 2, "C08 another block released");
            assert!(st.contains(&da.to_vec()) && st.contains(&db.to_vec()), "C08 released without all batches stored");
            std::mem::forget(blk);
        }
        Some(other) => {
            std::mem::forget(other);
            assert!(false, "C08 parked proposal lost although all its batches arrived");
        }
        None => assert!(false, "C08 parked proposal not released although all its batches arrived"),
    }
    std::mem::forget(tx_cancel);
}
#[kani::proof]
#[kani::unwind(10)]
#[kani::stub(std::fmt::format, stub_format)]
fn c08_waiter_a_then_b() { waiter_all(0) }
#[kani::proof]
#[kani::unwind(10)]
#[kani::stub(std::fmt::format, stub_format)]
fn c08_waiter_b_then_a() { waiter_all(1) }

/// Cancelled (round cleaned up) while one batch is still missing: completes with nothing, the block is never released.
#[kani::proof]
#[kani::unwind(10)]
#[kani::stub(std::fmt::format, stub_format)]
fn c08_waiter_cancelled() {
    store::reset();
    let mut st = Store::new("x").unwrap();
    let da = Digest(DBytes([1; 8]));
    let db = Digest(DBytes([2; 8]));
    let (tx_cancel, rx_cancel) = channel::<()>(1);
    let mut b = blk(1, 7, Digest(DBytes([5; 8])), 6);
    b.payload = vec![da.clone(), db.clone()];
    let missing = vec![(da.clone(), st.clone()), (db.clone(), st.clone())];
    let fut = PayloadWaiter::waiter(missing, Box::new(b), rx_cancel);
    let mut fut = std::pin::pin!(fut);
    st.preload(da.to_vec(), vec![7u8]);
    assert!(poll_once(fut.as_mut()).is_none(), "C08 parked proposal released while a batch is still missing");
    {
        let s = tx_cancel.send(());
        let mut s = std::pin::pin!(s);
        assert!(poll_once(s.as_mut()).is_some());
    }
    match poll_once(fut.as_mut()) {
        Some(Ok(None)) => (),
        Some(other) => {
            std::mem::forget(other);
            assert!(false, "C08 cancelled waiter released a block whose batch is missing");
        }
        None => assert!(false, "cancelled waiter still pending"),
    }
    std::mem::forget(tx_cancel);
}

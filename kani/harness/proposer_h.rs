//! C09 harness attached to consensus/src/proposer.rs: the real `Proposer::make_block` (lowered; every peer acknowledges at
//! once) signs and broadcasts exactly one block for the requested round, carrying the buffered digests.
#![allow(unused_imports, dead_code)]
use super::*;
use crate::config::kani_config_h::{addr, committee_of, key};
use crypto::{Hash as _, SecretKey, Signature};
use tokio::sync::mpsc::channel;

pub fn stub_format(_args: std::fmt::Arguments<'_>) -> String {
    String::new()
}
#[kani::proof]
#[kani::unwind(64)]
#[kani::stub(std::fmt::format, stub_format)]
fn c09_proposer_make_block() {
    *network::AUTO_ACK.lock().unwrap() = true;
    let (_tx_mempool, rx_mempool) = channel::<Digest>(4);
    let (_tx_message, rx_message) = channel::<ProposerMessage>(4);
    let (tx_loopback, mut rx_loopback) = channel::<Block>(4);
    let me = key(2);
    let mut p = Proposer {
        name: me,
        committee: committee_of(&[1, 1, 1, 1]),
        signature_service: SignatureService::new(SecretKey(me.0)),
        rx_mempool,
        rx_message,
        tx_loopback,
        buffer: kcoll::HashSet::new(),
        network: ReliableSender::new(),
    };
    let d1 = Digest(crypto::DBytes(vwit::any_bytes::<8>()));
    let d2 = Digest(crypto::DBytes(vwit::any_bytes::<8>()));
    vwit::assume(d1 != d2);
    p.buffer.insert(d1.clone());
    p.buffer.insert(d2.clone());
    let r: Round = vwit::any_u64();
    let qc = QC { hash: Digest(crypto::DBytes(vwit::any_bytes::<8>())), round: vwit::any_u64(), votes: Vec::new() };
    let (qh, qr) = (qc.hash.clone(), qc.round);
    {
        use std::future::Future;
        let w = tokio::noop_waker();
        let mut cx = std::task::Context::from_waker(&w);
        let f = p.make_block(r, qc, None);
        let mut f = std::pin::pin!(f);
        assert!(f.as_mut().poll(&mut cx).is_ready(), "make_block did not complete although every peer acknowledged");
    }
    // exactly one block, for the requested round, by this node, with the requested QC and the buffered digests, validly signed
    assert!(rx_loopback.len() == 1, "C09 proposer did not hand exactly one block to its own core");
    let b = rx_loopback.try_pop().unwrap();
    assert!(b.round == r, "C09 block proposed for another round than requested");
    assert!(b.author == me, "C09 block not authored by this node");
    assert!(b.qc.hash == qh && b.qc.round == qr && b.tc.is_none(), "C09 block does not carry the requested certificate");
    assert!(b.payload.len() == 2 && ((b.payload[0] == d1 && b.payload[1] == d2) || (b.payload[0] == d2 && b.payload[1] == d1)), "C13 buffered digests not proposed exactly once");
    assert!(b.signature.verify(&b.digest(), &me).is_ok(), "C09 proposal not signed by its author over its digest");
    assert!(p.buffer.is_empty(), "C13 proposed digests left in the buffer (would be proposed twice)");
    // the same block went to each of the 3 peers
    let sent = network::SENT.lock().unwrap();
    assert!(sent.len() == 3, "C09 proposal not broadcast to every peer exactly once");
    let expect = bincode::serialize(&ConsensusMessage::Propose(b.clone())).unwrap();
    let mut i = 0;
    while i < 3 {
        assert!(sent[i].reliable && sent[i].data.len() == expect.len(), "C09 broadcast frame differs from the block handed to the core");
        let mut j = 0;
        while j < expect.len() {
            assert!(sent[i].data[j] == expect[j], "C09 peers were sent a different block (equivocation)");
            j += 1;
        }
        i += 1;
    }
    vwit::cover!(r > 3);
    std::mem::forget((b, expect));
    std::mem::forget(p);
    std::mem::forget((_tx_mempool, _tx_message, rx_loopback));
}

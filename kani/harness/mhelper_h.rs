//! C15 / C08 harnesses attached to mempool/src/helper.rs: the real `Helper::run` (lowered: no select!) answering one batch
//! request that names a stored batch, an unknown digest and a digest whose store entry is another component's data, from a
//! committee member or from an unknown requester. The helper must answer with exactly the stored bytes, skip what it
//! does not have, ignore strangers, and survive all of it.
#![allow(unused_imports, dead_code)]
use super::*;
use crate::config::{Authority, Stake};
use std::net::{IpAddr, Ipv4Addr, SocketAddr};
use tokio::sync::mpsc::channel;

pub fn stub_format(_args: std::fmt::Arguments<'_>) -> String {
    String::new()
}
fn addr(p: u16) -> SocketAddr {
    SocketAddr::new(IpAddr::V4(Ipv4Addr::new(127, 0, 0, 1)), p)
}
fn pk(i: u8) -> PublicKey {
    let mut k = PublicKey::default();
    k.0[0] = i + 1;
    k
}
fn committee4() -> Committee {
    let mut m = kcoll::HashMap::default();
    let mut i = 0;
    while i < 4 {
        m.items[i] = Some((pk(i as u8), Authority { stake: 1, transactions_address: addr(100 + i as u16), mempool_address: addr(200 + i as u16) }));
        i += 1;
    }
    m.n = 4;
    Committee { authorities: m, epoch: 1 }
}
/// digests requested: [d_stored, d_unknown]; `member`: the requester is authority 2, else a stranger.
fn batch_request(member: bool) {
    store::reset();
    let mut store = Store::new("x").unwrap();
    let raw: [u8; 6] = vwit::any_bytes::<6>();
    let mut batch = Vec::with_capacity(8);
    let mut i = 0;
    while i < 6 {
        batch.push(raw[i]);
        i += 1;
    }
    let d_stored = Digest(crypto::DBytes([3; 8]));
    let d_unknown = Digest(crypto::DBytes([4; 8]));
    store.preload(d_stored.to_vec(), batch.clone());
    if member {
        store::script_strict(&[0, store::MISS]);
    } else {
        store::script_strict(&[]);
    }
    let (tx, rx) = channel(4);
    let mut h = Helper { committee: committee4(), store, rx_request: rx, network: SimpleSender::new() };
    let origin = if member { pk(2) } else { pk(7) };
    {
        use std::future::Future;
        let w = tokio::noop_waker();
        let mut cx = std::task::Context::from_waker(&w);
        let s = tx.send((vec![d_stored.clone(), d_unknown.clone()], origin));
        let mut s = std::pin::pin!(s);
        assert!(s.as_mut().poll(&mut cx).is_ready());
    }
    // closing the channel ends the helper's loop after the queued request (a live node keeps the sender and the loop pends)
    drop(tx);
    {
        use std::future::Future;
        let f = h.run();
        let mut f = std::pin::pin!(f);
        let w = tokio::noop_waker();
        let mut cx = std::task::Context::from_waker(&w);
        assert!(f.as_mut().poll(&mut cx).is_ready(), "C15 mempool helper did not finish the queued request");
    }
    let sent = network::SENT.lock().unwrap();
    if member {
        assert!(sent.len() == 1, "C15 batch request for a stored batch not answered exactly once (unknown digests are skipped)");
        assert!(sent[0].to == addr(202), "C15 batch reply not sent to the requester's mempool address");
        assert!(sent[0].data.len() == 6, "C15 batch reply is not the stored batch");
        let mut i = 0;
        while i < 6 {
            assert!(sent[0].data[i] == raw[i], "C15 batch reply differs from the stored bytes");
            i += 1;
        }
    } else {
        assert!(sent.len() == 0, "C15 batch request from an unknown authority answered");
    }
    vwit::cover!(raw[0] != raw[5]);
    std::mem::forget((h, batch, d_stored, d_unknown));
}
#[kani::proof]
#[kani::unwind(16)]
#[kani::stub(std::fmt::format, stub_format)]
fn mhelper_member() { batch_request(true) }
#[kani::proof]
#[kani::unwind(16)]
#[kani::stub(std::fmt::format, stub_format)]
fn mhelper_stranger() { batch_request(false) }

//! C04 harnesses attached to consensus/src/messages.rs: the real verify functions under ideal signatures.
#![allow(unused_imports, dead_code)]
use super::*;
use crate::config::kani_config_h::{committee_of, key};
use crate::config::Stake;
use crypto::Hash as _;

fn any_digest() -> Digest {
    Digest(crypto::DBytes(vwit::any_bytes::<8>()))
}
fn sig(signer: u8, d: &Digest) -> Signature {
    Signature { part1: key(signer).0, part2: (d.0).0 }
}
/// A signature by `signer` that is valid for `d` iff `ok`; otherwise it is a signature of the same signer over another
/// digest (altered field / transplanted from another message) or a signature over `d` by somebody else.
fn maybe_sig(signer: u8, d: &Digest, ok: bool) -> Signature {
    // all draws unconditional (keeps the witness order independent of symbolic branches)
    let other_signer: bool = vwit::any_bool();
    let w: u8 = vwit::any_u8();
    let d2 = any_digest();
    vwit::assume(w < 5 && w != signer && d2 != *d);
    if ok {
        sig(signer, d)
    } else if other_signer {
        sig(w, d)
    } else {
        sig(signer, &d2)
    }
}
struct Signers<const K: usize> {
    who: [u8; K],
    ok: [bool; K],
}
fn any_signers<const K: usize>() -> Signers<K> {
    let mut who = [0u8; K];
    let mut ok = [false; K];
    let mut i = 0;
    while i < K {
        who[i] = vwit::any_u8();
        vwit::assume(who[i] < 5); // 0..3 members, 4 = not in the committee
        ok[i] = vwit::any_bool();
        i += 1;
    }
    Signers { who, ok }
}
/// reference predicate: all members with voting rights, pairwise distinct, quorum stake, all signatures valid
fn expected<const K: usize>(s: &Signers<K>, stakes: &[Stake; 4], q: u64) -> bool {
    let mut w = 0u64;
    let mut good = true;
    let mut i = 0;
    while i < K {
        if s.who[i] >= 4 || stakes[s.who[i] as usize] == 0 || !s.ok[i] {
            good = false;
        } else {
            w += stakes[s.who[i] as usize] as u64;
        }
        let mut j = 0;
        while j < i {
            if s.who[j] == s.who[i] {
                good = false;
            }
            j += 1;
        }
        i += 1;
    }
    good && w >= q
}
fn any_stakes() -> [Stake; 4] {
    let stakes: [Stake; 4] = vwit::any_u32s::<4>();
    let total: u64 = stakes[0] as u64 + stakes[1] as u64 + stakes[2] as u64 + stakes[3] as u64;
    vwit::assume(total >= 1 && total < (1u64 << 31));
    stakes
}

fn qc_verify<const K: usize>() {
    let stakes = any_stakes();
    let committee = committee_of(&stakes);
    let q = committee.quorum_threshold() as u64;
    let s = any_signers::<K>();
    let mut qc = QC { hash: any_digest(), round: vwit::any_u64(), votes: Vec::new() };
    let d = qc.digest();
    let mut i = 0;
    while i < K {
        qc.votes.push((key(s.who[i]), maybe_sig(s.who[i], &d, s.ok[i])));
        i += 1;
    }
    let res = qc.verify(&committee);
    let exp = expected(&s, &stakes, q);
    assert!(res.is_ok() == exp, "C04 QC::verify accepts/rejects wrongly");
    vwit::cover!(exp);
    vwit::cover!(!exp && s.ok[0] && s.who[0] < 4);
    std::mem::forget(res);
    std::mem::forget(qc);
    std::mem::forget(committee);
}
#[kani::proof]
#[kani::unwind(10)]
fn c04_qc_verify_k2() { qc_verify::<2>() }
#[kani::proof]
#[kani::unwind(10)]
fn c04_qc_verify_k3() { qc_verify::<3>() }
#[kani::proof]
#[kani::unwind(10)]
fn c04_qc_verify_k4() { qc_verify::<4>() }

fn tc_verify<const K: usize>() {
    let stakes = any_stakes();
    let committee = committee_of(&stakes);
    let q = committee.quorum_threshold() as u64;
    let s = any_signers::<K>();
    let round: Round = vwit::any_u64();
    let mut tc = TC { round, votes: Vec::new() };
    let mut i = 0;
    while i < K {
        let hq: Round = vwit::any_u64();
        // the digest a timeout of `round` reporting `hq` signs (real Timeout::digest)
        let t = Timeout { high_qc: QC { hash: Digest::default(), round: hq, votes: Vec::new() }, round, author: key(0), signature: Signature::default() };
        let d = t.digest();
        std::mem::forget(t);
        tc.votes.push((key(s.who[i]), maybe_sig(s.who[i], &d, s.ok[i]), hq));
        i += 1;
    }
    let res = tc.verify(&committee);
    let exp = expected(&s, &stakes, q);
    assert!(res.is_ok() == exp, "C04 TC::verify accepts/rejects wrongly");
    vwit::cover!(exp);
    vwit::cover!(!exp && s.ok[0] && s.who[0] < 4);
    std::mem::forget(res);
    std::mem::forget(tc);
    std::mem::forget(committee);
}
#[kani::proof]
#[kani::unwind(10)]
fn c04_tc_verify_k3() { tc_verify::<3>() }
#[kani::proof]
#[kani::unwind(10)]
fn c04_tc_verify_k4() { tc_verify::<4>() }

/// Vote::verify and Timeout::verify (embedded high QC genesis or a 3-vote QC), symbolic stakes.
#[kani::proof]
#[kani::unwind(10)]
fn c04_vote_verify() {
    let stakes = any_stakes();
    let committee = committee_of(&stakes);
    let a: u8 = vwit::any_u8();
    vwit::assume(a < 5);
    let ok: bool = vwit::any_bool();
    let mut v = Vote { hash: any_digest(), round: vwit::any_u64(), author: key(a), signature: Signature::default() };
    let d = v.digest();
    v.signature = maybe_sig(a, &d, ok);
    let res = v.verify(&committee);
    let exp = a < 4 && stakes[a as usize % 4] > 0 && ok;
    assert!(res.is_ok() == exp, "C04 Vote::verify accepts/rejects wrongly");
    vwit::cover!(exp);
    vwit::cover!(!exp && a < 4);
    std::mem::forget(res);
    std::mem::forget(v);
    std::mem::forget(committee);
}
fn timeout_verify(genesis_qc: bool) {
    let stakes = any_stakes();
    let committee = committee_of(&stakes);
    let q = committee.quorum_threshold() as u64;
    let a: u8 = vwit::any_u8();
    vwit::assume(a < 5);
    let ok: bool = vwit::any_bool();
    let s = any_signers::<3>();
    let mut hq = QC::genesis();
    if !genesis_qc {
        hq = QC { hash: any_digest(), round: vwit::any_u64(), votes: Vec::new() };
        // (stated on the fields, not through the code's own `PartialEq for QC`, which is part of what is being checked)
        vwit::assume(!(hq.hash == Digest::default() && hq.round == 0));
        let d = hq.digest();
        let mut i = 0;
        while i < 3 {
            hq.votes.push((key(s.who[i]), maybe_sig(s.who[i], &d, s.ok[i])));
            i += 1;
        }
    }
    let mut t = Timeout { high_qc: hq, round: vwit::any_u64(), author: key(a), signature: Signature::default() };
    let d = t.digest();
    t.signature = maybe_sig(a, &d, ok);
    let res = t.verify(&committee);
    let exp = a < 4 && stakes[a as usize % 4] > 0 && ok && (genesis_qc || expected(&s, &stakes, q));
    assert!(res.is_ok() == exp, "C04 Timeout::verify accepts/rejects wrongly");
    vwit::cover!(exp);
    vwit::cover!(!exp && a < 4 && (genesis_qc || (ok && stakes[a as usize % 4] > 0)));
    std::mem::forget(res);
    std::mem::forget(t);
    std::mem::forget(committee);
}
#[kani::proof]
#[kani::unwind(10)]
fn c04_timeout_verify_genesis() { timeout_verify(true) }
#[kani::proof]
#[kani::unwind(10)]
fn c04_timeout_verify_qc() { timeout_verify(false) }
/// Block::verify: author with voting rights, own signature, embedded QC (genesis or 3 votes), optional 3-entry TC.
fn block_verify(genesis_qc: bool, with_tc: bool) {
    let stakes = any_stakes();
    let committee = committee_of(&stakes);
    let q = committee.quorum_threshold() as u64;
    let a: u8 = vwit::any_u8();
    vwit::assume(a < 5);
    let ok: bool = vwit::any_bool();
    let s = any_signers::<3>();
    let mut qc = QC::genesis();
    if !genesis_qc {
        qc = QC { hash: any_digest(), round: vwit::any_u64(), votes: Vec::new() };
        // (stated on the fields, not through the code's own `PartialEq for QC`, which is part of what is being checked)
        vwit::assume(!(qc.hash == Digest::default() && qc.round == 0));
        let d = qc.digest();
        let mut i = 0;
        while i < 3 {
            qc.votes.push((key(s.who[i]), maybe_sig(s.who[i], &d, s.ok[i])));
            i += 1;
        }
    }
    let st = any_signers::<3>();
    let mut tc = None;
    if with_tc {
        let round: Round = vwit::any_u64();
        let mut t = TC { round, votes: Vec::new() };
        let mut i = 0;
        while i < 3 {
            let hq: Round = vwit::any_u64();
            let tm = Timeout { high_qc: QC { hash: Digest::default(), round: hq, votes: Vec::new() }, round, author: key(0), signature: Signature::default() };
            let d = tm.digest();
            std::mem::forget(tm);
            t.votes.push((key(st.who[i]), maybe_sig(st.who[i], &d, st.ok[i]), hq));
            i += 1;
        }
        tc = Some(t);
    }
    let mut b = Block { qc, tc, author: key(a), round: vwit::any_u64(), payload: Vec::new(), signature: Signature::default() };
    let d = b.digest();
    b.signature = maybe_sig(a, &d, ok);
    let res = b.verify(&committee);
    let exp = a < 4 && stakes[a as usize % 4] > 0 && ok && (genesis_qc || expected(&s, &stakes, q)) && (!with_tc || expected(&st, &stakes, q));
    assert!(res.is_ok() == exp, "C04 Block::verify accepts/rejects wrongly");
    vwit::cover!(exp);
    vwit::cover!(!exp && a < 4 && ((genesis_qc && !with_tc) || (ok && stakes[a as usize % 4] > 0)));
    std::mem::forget(res);
    std::mem::forget(b);
    std::mem::forget(committee);
}
#[kani::proof]
#[kani::unwind(10)]
fn c04_block_verify_genesis() { block_verify(true, false) }
#[kani::proof]
#[kani::unwind(10)]
fn c04_block_verify_notc() { block_verify(false, false) }
#[kani::proof]
#[kani::unwind(10)]
fn c04_block_verify_tc() { block_verify(false, true) }
#[kani::proof]
#[kani::unwind(10)]
fn c04_block_verify_genesis_tc() { block_verify(true, true) }

/// C20 (store / sync-path encoding): a Block with one payload digest, a one-vote QC and a one-entry TC survives the
/// serialize -> deserialize round trip (wire format of the bincode shim: same layout as bincode 1.3 default options; the
/// REAL bincode is exercised on votes and timeouts in messages_r.rs) with every field and its digest intact.
#[kani::proof]
#[kani::unwind(12)]
fn c20_block_roundtrip_l() {
    let a: u8 = vwit::any_u8();
    let s: u8 = vwit::any_u8();
    vwit::assume(a < 5 && s < 5);
    let mut b = Block {
        qc: QC { hash: any_digest(), round: vwit::any_u64(), votes: Vec::new() },
        tc: None,
        author: key(a),
        round: vwit::any_u64(),
        payload: Vec::new(),
        signature: Signature::default(),
    };
    b.payload.push(any_digest());
    let vd = any_digest();
    b.qc.votes.push((key(s), sig(s, &vd)));
    let mut tc = TC { round: vwit::any_u64(), votes: Vec::new() };
    tc.votes.push((key(s), sig(s, &vd), vwit::any_u64()));
    b.tc = Some(tc);
    b.signature = sig(a, &vd);
    let bytes = bincode::serialize(&b).unwrap();
    let b2: Block = bincode::deserialize(&bytes).unwrap();
    assert!(b2.author == b.author && b2.round == b.round && b2.qc.hash == b.qc.hash && b2.qc.round == b.qc.round, "C20 block changed by the round trip");
    assert!(b2.payload.len() == 1 && b2.payload[0] == b.payload[0], "C20 block payload changed by the round trip");
    assert!(b2.qc.votes.len() == 1 && b2.qc.votes[0].0 == b.qc.votes[0].0 && b2.qc.votes[0].1.part1 == b.qc.votes[0].1.part1 && b2.qc.votes[0].1.part2 == b.qc.votes[0].1.part2, "C20 QC votes changed by the round trip");
    match (&b2.tc, &b.tc) {
        (Some(t2), Some(t)) => assert!(t2.round == t.round && t2.votes.len() == 1 && t2.votes[0].0 == t.votes[0].0 && t2.votes[0].2 == t.votes[0].2, "C20 TC changed by the round trip"),
        _ => assert!(false, "C20 TC lost in the round trip"),
    }
    assert!(b2.signature.part1 == b.signature.part1 && b2.signature.part2 == b.signature.part2, "C20 block signature changed by the round trip");
    assert!(b2.digest() == b.digest(), "C20 block digest changed by the round trip");
    vwit::cover!(b.round > 5);
    std::mem::forget((b, b2, bytes));
}

//! C15 / C18 harnesses attached to the REAL crypto/src/lib.rs (profile R: real base64, real serde impls, 32/64-byte types).
#![allow(unused_imports, dead_code)]
use super::*;

/// An arbitrary ASCII string of exactly N bytes (every byte < 128, so it is valid UTF-8).
fn any_ascii<const N: usize>() -> ([u8; N], ()) {
    let b: [u8; N] = vwit::any_bytes::<N>();
    let mut i = 0;
    while i < N {
        vwit::assume(b[i] < 128);
        i += 1;
    }
    (b, ())
}
fn pk_decode_total<const N: usize>() {
    let (b, _) = any_ascii::<N>();
    let s = unsafe { std::str::from_utf8_unchecked(&b) };
    // totality: returns a value or an error, never panics
    let r = PublicKey::decode_base64(s);
    vwit::cover!(N < 43 || r.is_ok());
    vwit::cover!(r.is_err());
    std::mem::forget(r);
}
fn sk_decode_total<const N: usize>() {
    let (b, _) = any_ascii::<N>();
    let s = unsafe { std::str::from_utf8_unchecked(&b) };
    let r = SecretKey::decode_base64(s);
    vwit::cover!(r.is_err());
    std::mem::forget(r);
}
macro_rules! dec_h {
    ($name:ident, $f:ident, $n:expr) => {
        #[kani::proof]
        #[kani::unwind(100)]
        #[kani::stub(std::fmt::format, stub_format)]
        fn $name() {
            $f::<$n>()
        }
    };
}
pub fn stub_format(_args: std::fmt::Arguments<'_>) -> String {
    String::new()
}
/// Stub for `core::str::from_utf8` in the key round-trip harnesses: base64 text is ASCII by construction of the alphabet, and
/// the byte-by-byte UTF-8 validation of 44 symbolic bytes dominates symbolic execution (trusted-base item of C18).
pub fn stub_from_utf8(v: &[u8]) -> Result<&str, std::str::Utf8Error> {
    Ok(unsafe { std::str::from_utf8_unchecked(v) })
}
dec_h!(c15_pk_decode_len4, pk_decode_total, 4);
dec_h!(c15_pk_decode_len8, pk_decode_total, 8);
dec_h!(c15_pk_decode_len44, pk_decode_total, 44);
dec_h!(c15_sk_decode_len4, sk_decode_total, 4);
dec_h!(c15_sk_decode_len44, sk_decode_total, 44);
// longer than a key (decodes to up to 36 / 69 bytes): "every digest/key argument (short, long, ..)"
dec_h!(c15_pk_decode_len48, pk_decode_total, 48);
dec_h!(c15_sk_decode_len92, sk_decode_total, 92);

/// decode(encode(k)) == k for every 32-byte public key.
#[kani::proof]
#[kani::unwind(100)]
#[kani::stub(std::fmt::format, stub_format)]
#[kani::stub(std::str::from_utf8, stub_from_utf8)]
fn c18_pk_roundtrip() {
    let k = PublicKey(vwit::any_bytes::<32>());
    let s = k.encode_base64();
    assert!(s.len() == 44, "C18 public key text length");
    match PublicKey::decode_base64(&s) {
        Ok(k2) => {
            let mut i = 0;
            while i < 32 {
                assert!(k2.0[i] == k.0[i], "C18 public key changed by encode/decode");
                i += 1;
            }
        }
        Err(_) => assert!(false, "C18 encoded public key does not decode"),
    }
    vwit::cover!(k.0[0] == 0xff);
    std::mem::forget(s);
}
/// Signature::flatten is part1 || part2 and Signature::new splits the primitive's 64 bytes at 32.
#[kani::proof]
#[kani::unwind(70)]
fn c18_signature_layout() {
    let p1: [u8; 32] = vwit::any_bytes::<32>();
    let p2: [u8; 32] = vwit::any_bytes::<32>();
    let s = Signature { part1: p1, part2: p2 };
    let f = s.flatten();
    let mut i = 0;
    while i < 32 {
        assert!(f[i] == p1[i] && f[32 + i] == p2[i], "C18 flatten is not part1 || part2");
        i += 1;
    }
    vwit::cover!(f[0] != f[32]);
}

/// decode(encode(k)) == k for every public key whose bytes outside the window [LO, LO+6) are zero (the full 32-byte
/// symbolic round trip is in the thorough tier).
fn pk_roundtrip_window(lo: usize) {
    let w: [u8; 6] = vwit::any_bytes::<6>();
    let mut k = PublicKey([0u8; 32]);
    let mut i = 0;
    while i < 6 {
        k.0[lo + i] = w[i];
        i += 1;
    }
    let s = k.encode_base64();
    assert!(s.len() == 44, "C18 public key text length");
    match PublicKey::decode_base64(&s) {
        Ok(k2) => {
            let mut i = 0;
            while i < 32 {
                assert!(k2.0[i] == k.0[i], "C18 public key changed by encode/decode");
                i += 1;
            }
        }
        Err(_) => assert!(false, "C18 encoded public key does not decode"),
    }
    vwit::cover!(w[0] == 0xff && w[5] == 0x01);
    std::mem::forget(s);
}
#[kani::proof]
#[kani::unwind(100)]
#[kani::stub(std::fmt::format, stub_format)]
#[kani::stub(std::str::from_utf8, stub_from_utf8)]
fn c18_pk_roundtrip_head() { pk_roundtrip_window(0) }
#[kani::proof]
#[kani::unwind(100)]
#[kani::stub(std::fmt::format, stub_format)]
#[kani::stub(std::str::from_utf8, stub_from_utf8)]
fn c18_pk_roundtrip_tail() { pk_roundtrip_window(26) }
#[kani::proof]
#[kani::unwind(100)]
#[kani::stub(std::fmt::format, stub_format)]
#[kani::stub(std::str::from_utf8, stub_from_utf8)]
fn c18_pk_roundtrip_mid() { pk_roundtrip_window(13) }

/// decode(encode(k)) == k for every 64-byte secret key.
#[kani::proof]
#[kani::unwind(100)]
#[kani::stub(std::fmt::format, stub_format)]
#[kani::stub(std::str::from_utf8, stub_from_utf8)]
fn c18_sk_roundtrip() {
    let raw: [u8; 64] = vwit::any_bytes::<64>();
    let k = SecretKey(raw);
    let s = k.encode_base64();
    assert!(s.len() == 88, "C18 secret key text length");
    match SecretKey::decode_base64(&s) {
        Ok(k2) => {
            let mut i = 0;
            while i < 64 {
                assert!(k2.0[i] == raw[i], "C18 secret key changed by encode/decode");
                i += 1;
            }
            std::mem::forget(k2);
        }
        Err(_) => assert!(false, "C18 encoded secret key does not decode"),
    }
    vwit::cover!(raw[63] == 0xff);
    std::mem::forget(s);
    std::mem::forget(k);
}


// ------------------------------------------------------------------------------------------------------------------ C18
// The first-party wrappers `Signature::{new, verify, verify_batch}` over the IDEAL primitive (kani/shims/ed25519-dalek:
// a signature is signer-key || message; 32-byte strings ending in 0xFF are "not curve points"). What is decided is the
// wrapper logic - which bytes are signed, which key/digest each member is checked against, that no member is skipped -
// not ed25519 itself.
fn any_pk() -> PublicKey {
    PublicKey(vwit::any_bytes::<32>())
}
fn any_sig() -> Signature {
    Signature { part1: vwit::any_bytes::<32>(), part2: vwit::any_bytes::<32>() }
}
/// batch verification accepts exactly when every member verifies individually (K members, everything symbolic: keys incl.
/// unparsable ones, signatures valid / over another digest / by another key, any position).
fn batch_equiv<const K: usize>() {
    let d = Digest(vwit::any_bytes::<32>());
    let mut votes: Vec<(PublicKey, Signature)> = Vec::new();
    let mut all_ok = true;
    let mut i = 0;
    while i < K {
        let (k, s) = (any_pk(), any_sig());
        let one = s.verify(&d, &k);
        all_ok = all_ok && one.is_ok();
        std::mem::forget(one);
        votes.push((k, s));
        i += 1;
    }
    let r = Signature::verify_batch(&d, &votes);
    assert!(r.is_ok() == all_ok, "C18 batch verification disagrees with individual verification");
    vwit::cover!(K == 0 || r.is_ok());
    vwit::cover!(K == 0 || r.is_err());
    std::mem::forget((r, votes));
}
macro_rules! batch_h {
    ($name:ident, $k:expr) => {
        #[kani::proof]
        #[kani::unwind(70)]
        #[kani::stub(std::fmt::format, stub_format)]
        fn $name() {
            batch_equiv::<$k>()
        }
    };
}
batch_h!(c18_batch_equiv_k0, 0);
batch_h!(c18_batch_equiv_k1, 1);
batch_h!(c18_batch_equiv_k3, 3);

/// A signature made with a secret key verifies under the matching public key for the signed digest, and fails for any
/// other digest and under any other key (ideal primitive; the wrapper must pass the right bytes in the right order).
#[kani::proof]
#[kani::unwind(70)]
#[kani::stub(std::fmt::format, stub_format)]
fn c18_sign_verify_ideal() {
    let seed: [u8; 32] = vwit::any_bytes::<32>();
    let pk = any_pk();
    vwit::assume(pk.0[31] != 0xFF); // honestly generated key
    let mut skb = [0u8; 64];
    let mut i = 0;
    while i < 32 {
        skb[i] = seed[i];
        skb[32 + i] = pk.0[i];
        i += 1;
    }
    let sk = SecretKey(skb);
    let d = Digest(vwit::any_bytes::<32>());
    let s = Signature::new(&d, &sk);
    let ok = s.verify(&d, &pk);
    assert!(ok.is_ok(), "C18 honest signature does not verify");
    let d2 = Digest(vwit::any_bytes::<32>());
    let pk2 = any_pk();
    let r2 = s.verify(&d2, &pk);
    let r3 = s.verify(&d, &pk2);
    assert!(r2.is_ok() == (d2.0 == d.0), "C18 signature verifies for another digest");
    assert!(r3.is_ok() == (pk2.0 == pk.0), "C18 signature verifies under another key");
    vwit::cover!(r2.is_err() && r3.is_err());
    std::mem::forget((ok, r2, r3));
}

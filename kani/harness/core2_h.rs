//! Harnesses over the real message handlers of `Core` (handle_proposal / handle_vote / handle_timeout / handle_tc /
//! local_timeout_round), profile L. Node state and message fields are symbolic; shapes and map keys are concrete.
#![allow(unused_imports, dead_code)]
use super::kani_core_env::*;
use super::*;
use crypto::{Digest, Signature};

const EQ4: [u32; 4] = [1, 1, 1, 1];

/// Snapshot of everything a rejected message must leave untouched.
struct Snap {
    round: Round,
    lv: Round,
    lc: Round,
    hq: Round,
    timer_resets: u64,
}
fn snap(env: &Env) -> Snap {
    Snap {
        round: env.core.round,
        lv: env.core.last_voted_round,
        lc: env.core.last_committed_round,
        hq: env.core.high_qc.round,
        timer_resets: env.core.timer.verif_resets(),
    }
}
/// C04(b): nothing observable changed.
fn assert_untouched(env: &Env, s: &Snap, writes0: usize) {
    assert!(env.core.round == s.round, "C04 rejected message changed the round");
    assert!(env.core.last_voted_round == s.lv, "C04 rejected message changed last_voted_round");
    assert!(env.core.last_committed_round == s.lc, "C04 rejected message changed last_committed_round");
    assert!(env.core.high_qc.round == s.hq, "C04 rejected message changed high_qc");
    assert!(env.core.timer.verif_resets() == s.timer_resets, "C04 rejected message reset the timer");
    assert!(sent_len() == 0, "C04 rejected message made the node send something");
    assert!(env.rx_commit.len() == 0, "C04 rejected message caused a commit");
    assert!(env.rx_proposer.len() == 0, "C04 rejected message reached the proposer");
    assert!(env.rx_mempool.len() == 0 && env.pw.len() == 0 && env.rx_sync.len() == 0, "C04 rejected message reached mempool/synchronizer");
    assert!(env.store.writes() == writes0, "C04 rejected message was stored");
    assert!(env.core.aggregator.verif_is_empty(), "C04 rejected message entered the aggregator");
}
fn any_node_state_at(env: &mut Env, hq_hash: Digest, round: Round) {
    env.core.round = round;
    env.core.last_voted_round = vwit::any_u64();
    env.core.high_qc = QC { hash: hq_hash, round: vwit::any_u64(), votes: Vec::new() };
    vwit::assume(inv(&env.core));
}
fn any_node_state(env: &mut Env, hq_hash: Digest) {
    env.core.round = vwit::any_u64();
    env.core.last_voted_round = vwit::any_u64();
    env.core.high_qc = QC { hash: hq_hash, round: vwit::any_u64(), votes: Vec::new() };
    vwit::assume(inv(&env.core));
}
fn leader_of(r: Round) -> u8 {
    (r % 4) as u8
}

// ===================================================================================== handle_proposal
/// Stored chain genesis <- b0(5) <- b1(6); proposal `blk` of symbolic round R > 6 carrying a 3-vote QC for b1.
/// `bad`: 0 = everything valid, 1 = block signature invalid, 2 = one QC vote invalid, 3 = QC below quorum (2 votes),
///        4 = QC with a repeated signer.  The author is symbolic (leader of R or not).
fn handle_proposal_check(bad: u8, cur_round: Round) {
    store::reset();
    // The node's current round is concrete per harness (3: behind the proposal's QC, 7: exactly there, 9: ahead) and the node
    // is chosen so that it does not lead the round after the one it ends up in: the self-addressed vote path (vote ->
    // own aggregator -> certificate path) is covered by hv_single / hv_quorum and would triple the cost here.
    let end_round = if 6 >= cur_round { 7 } else { cur_round };
    let me = ((end_round + 2) % 4) as u8;
    let mut env = mk_core(me, &EQ4);
    let b0 = blk(1, 5, Digest::default(), 0);
    let d0 = b0.digest();
    env.store.preload(d0.to_vec(), bincode::serialize(&b0).unwrap());
    let b1 = blk(2, 6, d0.clone(), 5);
    let d1 = b1.digest();
    env.store.preload(d1.to_vec(), bincode::serialize(&b1).unwrap());
    vwit::assume(d0 != d1 && d0 != Digest::default() && d1 != Digest::default());
    store::script_strict(&[1, 0]);
    env.core.last_committed_round = 4;
    any_node_state_at(&mut env, d0.clone(), cur_round);
    let r: Round = vwit::any_u64();
    let author: u8 = vwit::any_u8();
    vwit::assume(r > 6 && r < (1u64 << 62) && author < 4);
    let mut qc = match bad {
        3 => qc_of(&b1, &[1, 2]),
        4 => qc_of(&b1, &[1, 2, 2]),
        _ => qc_of(&b1, &[1, 2, 3]),
    };
    if bad == 2 {
        let wrong = any_digest();
        vwit::assume(wrong != qc.digest());
        qc.votes[1].1 = sig(2, &wrong);
    }
    let mut b = Block { qc, tc: None, author: key(author), round: r, payload: Vec::new(), signature: Signature::default() };
    let bd = b.digest();
    vwit::assume(bd != d0 && bd != d1);
    b.signature = if bad == 1 {
        let wrong = any_digest();
        vwit::assume(wrong != bd);
        sig(author, &wrong)
    } else {
        sig(author, &bd)
    };
    let s0 = snap(&env);
    let res = run_ready(env.core.handle_proposal(&b));
    let right_leader = author == leader_of(r);
    if !right_leader || bad != 0 {
        assert!(res.is_err(), "C04 invalid / wrong-leader proposal accepted");
        if !right_leader {
            assert!(matches!(res, Err(ConsensusError::WrongLeader { .. })) || bad != 0, "C09 proposal of a non-leader not rejected as such");
        }
        assert_untouched(&env, &s0, 0);
    } else {
        assert!(res.is_ok());
        // C10: the round moves only on the evidence of the block's QC (round 6): to 7 if we were behind, else unchanged
        let exp_round = if 6 >= s0.round { 7 } else { s0.round };
        assert!(env.core.round == exp_round, "C10 round after a valid proposal");
        assert!(env.core.round >= s0.round, "C10 round decreased");
        let exp_hq = if 6 > s0.hq { 6 } else { s0.hq };
        assert!(env.core.high_qc.round == exp_hq, "C10 high_qc is not the maximum seen");
        if exp_round > s0.round {
            assert!(env.core.timer.verif_resets() == s0.timer_resets + 1, "C10 timer not reset on round advance");
        }
        // C03/C09: vote only if the block is for the (possibly advanced) current round, extends safely, and was not voted past
        let may_vote = r == exp_round && r > s0.lv && 6 + 1 == r;
        let next_leader_is_me = (exp_round + 1) % 4 == me as u64;
        assert!(!next_leader_is_me);
        if may_vote {
            assert!(env.core.last_voted_round == r, "C03 vote expected");
            if !next_leader_is_me {
                assert!(sent_len() == 1 && sent_tag(0) == TAG_VOTE && sent_u64(0, VOTE_ROUND_OFF) == r, "C03 vote expected on the wire");
                assert!(sent_to(0) == addr(100 + ((exp_round + 1) % 4) as u16), "C09 vote not addressed to the next leader");
            }
        } else {
            assert!(env.core.last_voted_round == s0.lv && sent_len() == 0, "C03 vote although the rule forbids it");
        }
        // C05: b0(5) <- b1(6) is a consecutive certified 2-chain and 5 was not delivered yet
        assert!(env.rx_commit.len() == 1, "C05 2-chain head not committed exactly once");
        assert!(env.store.writes() == 1, "block not stored");
    }
    // vacuity witnesses (a cover in a branch that is dead for this variant would be unreachable, hence the implications)
    vwit::cover!(bad != 0 || res.is_ok());
    vwit::cover!(bad != 0 || (res.is_err() && !right_leader));
    vwit::cover!(bad == 0 || (res.is_err() && right_leader));
    std::mem::forget(res);
    std::mem::forget((b, b0, b1, d0, d1));
    std::mem::forget(env);
}
macro_rules! hp_h {
    ($name:ident, $bad:expr, $round:expr) => {
        #[kani::proof]
        #[kani::unwind(12)]
        #[kani::stub(std::fmt::format, stub_format)]
        fn $name() {
            handle_proposal_check($bad, $round)
        }
    };
}
hp_h!(hp_valid, 0, 7);
hp_h!(hp_valid_behind, 0, 3);
hp_h!(hp_valid_ahead, 0, 9);
hp_h!(hp_bad_block_sig, 1, 7);
hp_h!(hp_bad_qc_vote, 2, 3);
hp_h!(hp_qc_below_quorum, 3, 7);
hp_h!(hp_qc_repeated_signer, 4, 3);

// ===================================================================================== handle_vote
/// One vote (author concrete per harness: member 1 or the non-member 4) with a symbolically valid signature and a symbolic
/// round. The author is concrete because the stake lookup decides the control flow into the certificate path.
fn handle_vote_single(a: u8) {
    store::reset();
    let mut env = mk_core(0, &EQ4);
    any_node_state(&mut env, Digest::default());
    let ok: bool = vwit::any_bool();
    let r: Round = vwit::any_u64();
    vwit::assume(r < (1u64 << 62));
    let mut v = Vote { hash: Digest(crypto::DBytes([9; 8])), round: r, author: key(a), signature: Signature::default() };
    let wrong = any_digest();
    vwit::assume(wrong != v.digest());
    v.signature = if ok { sig(a, &v.digest()) } else { sig(a, &wrong) };
    let s0 = snap(&env);
    let res = run_ready(env.core.handle_vote(&v));
    if r < s0.round {
        assert!(res.is_ok(), "stale vote must be ignored silently");
        assert!(env.rx_proposer.len() == 0, "C09 proposal requested on a stale vote");
        assert!(env.core.round == s0.round && env.core.high_qc.round == s0.hq, "C10 round/high_qc changed by a stale vote");
        assert_untouched(&env, &s0, 0);
    } else if a >= 4 || !ok {
        assert!(res.is_err(), "C04/C19 invalid vote accepted (unverified votes must never reach the aggregator)");
        assert_untouched(&env, &s0, 0);
    } else {
        assert!(res.is_ok());
        // a single vote (stake 1 of 4) never forms a certificate: no round change, nothing sent, nothing committed
        assert!(env.core.round == s0.round && env.core.high_qc.round == s0.hq, "C10 round/high_qc moved without a certificate");
        assert!(sent_len() == 0 && env.rx_proposer.len() == 0, "C09 proposal requested without entering a new round");
        assert!(env.rx_commit.len() == 0, "C05 a vote caused a commit");
        assert!(!env.core.aggregator.verif_is_empty());
    }
    vwit::cover!(a >= 4 || (res.is_ok() && r >= s0.round));
    vwit::cover!(r < s0.round || res.is_err());
    std::mem::forget(res);
    std::mem::forget(v);
    std::mem::forget(env);
}
#[kani::proof]
#[kani::unwind(12)]
#[kani::stub(std::fmt::format, stub_format)]
fn hv_single() { handle_vote_single(1) }
#[kani::proof]
#[kani::unwind(12)]
#[kani::stub(std::fmt::format, stub_format)]
fn hv_single_nonmember() { handle_vote_single(4) }
/// Two valid votes of distinct members for one block of round r already sit in the aggregator (put there through the real
/// `Aggregator::add_vote`); the third arrives through the real `handle_vote` and assembles the QC. The node's current round
/// and r are concrete per harness (they decide which aggregator entries survive `cleanup`); last_voted_round and high_qc
/// are symbolic.
fn handle_vote_quorum(cur_round: Round, r: Round, me: u8) {
    store::reset();
    let mut env = mk_core(me, &EQ4);
    any_node_state_at(&mut env, Digest::default(), cur_round);
    let s0 = snap(&env);
    let h = Digest(crypto::DBytes([9; 8]));
    let mk = |i: u8| {
        let mut v = Vote { hash: h.clone(), round: r, author: key(i), signature: Signature::default() };
        v.signature = sig(i, &v.digest());
        v
    };
    // authors other than the node itself, in a fixed order
    let a = [(me + 1) % 4, (me + 2) % 4, (me + 3) % 4];
    assert!(matches!(env.core.aggregator.add_vote(mk(a[0])), Ok(None)));
    assert!(matches!(env.core.aggregator.add_vote(mk(a[1])), Ok(None)));
    let v3 = mk(a[2]);
    let res = run_ready(env.core.handle_vote(&v3));
    assert!(res.is_ok());
    // C10: entered round r+1 on the evidence of the assembled QC for round r; C19: exactly once
    assert!(env.core.round == r + 1, "C10 round after assembling a QC");
    assert!(env.core.high_qc.round == if r > s0.hq { r } else { s0.hq }, "C10 high_qc after assembling a QC");
    assert!(env.core.high_qc.round != r || env.core.high_qc.votes.len() == 3, "C19 assembled QC entry count");
    assert!(env.core.timer.verif_resets() == s0.timer_resets + 1, "C10 timer not reset on round advance");
    // C09: a proposal is requested iff this node leads the new round, exactly once, for that round
    let i_lead = (r + 1) % 4 == me as u64;
    if i_lead {
        assert!(env.rx_proposer.len() == 1, "C09 leader of the new round did not request exactly one proposal");
        match env.rx_proposer.try_pop() {
            Some(ProposerMessage::Make(round, qc, tc)) => {
                assert!(round == r + 1 && tc.is_none(), "C09 proposal requested for another round");
                assert!(qc.round == env.core.high_qc.round, "C10 proposal does not carry the highest QC");
                std::mem::forget((qc, tc));
            }
            _ => assert!(false, "C09 unexpected proposer message"),
        }
    } else {
        assert!(env.rx_proposer.len() == 0, "C09 non-leader requested a proposal");
    }
    assert!(sent_len() == 0 && env.rx_commit.len() == 0);
    // a fourth (late) vote for the same block and round is stale now and changes nothing (C19: formed once)
    let v4 = mk(me);
    let res4 = run_ready(env.core.handle_vote(&v4));
    assert!(res4.is_ok() && env.core.round == r + 1, "C19 late vote acted upon");
    assert!(env.rx_proposer.len() == 0, "C09 second proposal request for one round");
    vwit::cover!(r > s0.hq);
    std::mem::forget((res, res4, v3, v4));
    std::mem::forget(env);
}
macro_rules! hvq_h {
    ($name:ident, $cur:expr, $r:expr, $me:expr) => {
        #[kani::proof]
        #[kani::unwind(12)]
        #[kani::stub(std::fmt::format, stub_format)]
        fn $name() {
            handle_vote_quorum($cur, $r, $me)
        }
    };
}
// node leads round r+1 (QC at the next leader), current round == vote round
hvq_h!(hv_quorum, 7, 7, 0);
// votes for a future round, node does not lead r+1
hvq_h!(hv_quorum_future_nonleader, 5, 9, 0);

/// The state right after this node assembled the QC for (h, round 7): current round 8 (which it leads), high_qc.round = 7,
/// aggregator cleaned.  A full quorum of valid votes for the same (h, 7) is delivered again (retransmission / replay)
/// through the real `handle_vote`: no second certificate may be assembled — observable as a second proposal request for
/// round 8 — and nothing else moves (C19: at most once per block and round).
#[kani::proof]
#[kani::unwind(12)]
#[kani::stub(std::fmt::format, stub_format)]
fn hv_replayed_quorum() {
    store::reset();
    let me = 0u8; // leads round 8
    let mut env = mk_core(me, &EQ4);
    let h = Digest(crypto::DBytes([9; 8]));
    env.core.round = 8;
    env.core.last_voted_round = vwit::any_u64();
    env.core.high_qc = QC { hash: h.clone(), round: 7, votes: Vec::new() };
    vwit::assume(inv(&env.core));
    let s0 = snap(&env);
    let mk = |i: u8| {
        let mut v = Vote { hash: h.clone(), round: 7, author: key(i), signature: Signature::default() };
        v.signature = sig(i, &v.digest());
        v
    };
    let (v1, v2, v3) = (mk(1), mk(2), mk(3));
    let r1 = run_ready(env.core.handle_vote(&v1));
    let r2 = run_ready(env.core.handle_vote(&v2));
    let r3 = run_ready(env.core.handle_vote(&v3));
    assert!(r1.is_ok() && r2.is_ok() && r3.is_ok());
    assert!(env.rx_proposer.len() == 0, "C19 a replayed quorum of votes assembled a second QC for the same block and round");
    assert!(env.core.round == 8 && env.core.high_qc.round == 7, "C10 round/high_qc moved by replayed votes");
    assert!(sent_len() == 0 && env.rx_commit.len() == 0 && env.core.last_voted_round == s0.lv);
    vwit::cover!(r3.is_ok());
    std::mem::forget((r1, r2, r3, v1, v2, v3));
    std::mem::forget(env);
}

// ===================================================================================== handle_tc / handle_timeout / local timeout
fn tc_of(round: Round, signers: &[u8], hq: Round) -> TC {
    let mut tc = TC { round, votes: Vec::new() };
    let t = Timeout { high_qc: QC { hash: Digest::default(), round: hq, votes: Vec::new() }, round, author: key(0), signature: Signature::default() };
    let d = t.digest();
    std::mem::forget(t);
    for s in signers {
        tc.votes.push((key(*s), sig(*s, &d), hq));
    }
    tc
}
/// handle_tc with a 3-entry TC of symbolic round; `bad`: 0 valid, 1 one signature over another round, 2 below quorum.
fn handle_tc_check(bad: u8) {
    store::reset();
    let mut env = mk_core(0, &EQ4);
    any_node_state(&mut env, Digest::default());
    let r: Round = vwit::any_u64();
    vwit::assume(r < (1u64 << 62));
    let mut tc = if bad == 2 { tc_of(r, &[1, 2], 0) } else { tc_of(r, &[1, 2, 3], 0) };
    if bad == 1 {
        let other = tc_of(r + 1, &[2], 0);
        tc.votes[1].1 = other.votes[0].1.clone();
        std::mem::forget(other);
    }
    let s0 = snap(&env);
    let res = run_ready(env.core.handle_tc(tc));
    if bad != 0 {
        assert!(res.is_err(), "C04 invalid TC accepted");
        assert_untouched(&env, &s0, 0);
    } else if r < s0.round {
        assert!(res.is_ok());
        // a stale TC (for a round the node already left) must be ignored: in particular it must not make the leader of the
        // current round propose again for it
        assert!(env.rx_proposer.len() == 0, "C09 proposal requested again on a stale TC (second proposal for one round)");
        assert!(env.core.round == s0.round, "C10 round changed by a stale TC");
        assert_untouched(&env, &s0, 0);
    } else {
        assert!(res.is_ok());
        assert!(env.core.round == r + 1, "C10 round after a valid TC");
        assert!(env.core.high_qc.round == s0.hq && env.core.last_voted_round == s0.lv);
        assert!(env.core.timer.verif_resets() == s0.timer_resets + 1, "C10 timer not reset on round advance");
        let i_lead = (r + 1) % 4 == 0;
        if i_lead {
            assert!(env.rx_proposer.len() == 1, "C09 leader of the new round did not request exactly one proposal");
            match env.rx_proposer.try_pop() {
                Some(ProposerMessage::Make(round, qc, t)) => {
                    assert!(round == r + 1 && t.is_some() && qc.round == s0.hq, "C09/C10 proposal request after a TC");
                    std::mem::forget((qc, t));
                }
                _ => assert!(false, "C09 unexpected proposer message"),
            }
        } else {
            assert!(env.rx_proposer.len() == 0, "C09 non-leader requested a proposal");
        }
    }
    vwit::cover!(bad != 0 || (res.is_ok() && r >= s0.round));
    vwit::cover!(bad != 0 || (res.is_ok() && r < s0.round));
    vwit::cover!(bad == 0 || res.is_err());
    std::mem::forget(res);
    std::mem::forget(env);
}
#[kani::proof]
#[kani::unwind(12)]
#[kani::stub(std::fmt::format, stub_format)]
fn htc_valid() { handle_tc_check(0) }
#[kani::proof]
#[kani::unwind(12)]
#[kani::stub(std::fmt::format, stub_format)]
fn htc_bad_sig() { handle_tc_check(1) }
#[kani::proof]
#[kani::unwind(12)]
#[kani::stub(std::fmt::format, stub_format)]
fn htc_below_quorum() { handle_tc_check(2) }

/// Local timer expiry from an arbitrary state: bumps last_voted_round, broadcasts a Timeout carrying round and high_qc.
#[kani::proof]
#[kani::unwind(12)]
#[kani::stub(std::fmt::format, stub_format)]
fn lt_local_timeout() {
    store::reset();
    let mut env = mk_core(0, &EQ4);
    any_node_state(&mut env, Digest::default());
    // high_qc must verify when the node processes its own timeout: genesis (round 0) or opaque-valid; keep genesis shape
    env.core.high_qc = QC::genesis();
    vwit::assume(inv(&env.core));
    let s0 = snap(&env);
    let res = run_ready(env.core.local_timeout_round());
    assert!(res.is_ok());
    // C03: no vote in this round after the timeout
    assert!(env.core.last_voted_round == if s0.lv > s0.round { s0.lv } else { s0.round }, "C03 timeout did not raise last_voted_round");
    assert!(env.core.last_voted_round >= s0.round);
    // C10: round unchanged by one timeout of stake 1; timeout carries the current round and high QC
    assert!(env.core.round == s0.round, "C10 round moved by a single timeout");
    assert!(sent_len() == 3, "timeout not broadcast to the 3 peers");
    let mut i = 0;
    while i < 3 {
        assert!(sent_tag(i) == TAG_TIMEOUT, "not a timeout on the wire");
        // wire layout: tag(4) high_qc{hash(8) round(8) votes_len(8)=0} round(8) author(4) sig(12)
        assert!(sent_u64(i, 12) == s0.hq, "C10 timeout does not carry the node's high QC");
        assert!(sent_u64(i, 28) == s0.round, "C10 timeout is not for the current round");
        i += 1;
    }
    assert!(env.core.timer.verif_resets() == s0.timer_resets + 1, "timer not re-armed after a local timeout");
    vwit::cover!(s0.lv < s0.round);
    std::mem::forget(res);
    std::mem::forget(env);
}
/// Timeout then a proposal for that same round: never voted (C03 "none after timeout").
#[kani::proof]
#[kani::unwind(12)]
#[kani::stub(std::fmt::format, stub_format)]
fn lt_then_proposal() {
    let mut pb = {
        // reuse the process_block environment: chain 5 <- 6, delivered up to 4
        super::kani_core_h::pb_setup_pub(5, 6, 4, 7)
    };
    pb.env.core.high_qc = QC::genesis();
    vwit::assume(inv(&pb.env.core));
    let round0 = pb.env.core.round;
    let res = run_ready(pb.env.core.local_timeout_round());
    assert!(res.is_ok());
    assert!(pb.env.core.round == round0);
    let sent0 = sent_len();
    // a proposal for the very round the node just timed out in, extending the certified block of round 6
    vwit::assume(pb.blk.round == round0);
    let res2 = run_ready(pb.env.core.process_block(&pb.blk));
    assert!(res2.is_ok());
    assert!(sent_len() == sent0, "C03 voted in a round after timing out in it");
    assert!(pb.env.core.last_voted_round == round0);
    vwit::cover!(pb.blk.round == 7 && pb.pre_lv < 7);
    std::mem::forget((res, res2));
    std::mem::forget(pb);
}

// ===================================================================================== C07 / C08: parking instead of blind progress
/// process_block of a block whose parent is not in the store: the block is handed to the synchronizer (parked), and the node
/// neither stores it, nor votes, nor commits, nor changes its round.
#[kani::proof]
#[kani::unwind(12)]
#[kani::stub(std::fmt::format, stub_format)]
fn pb_missing_parent() {
    store::reset();
    let mut env = mk_core(1, &EQ4);
    any_node_state_at(&mut env, Digest::default(), 7);
    store::script_strict(&[store::MISS]);
    let parent = any_digest();
    vwit::assume(parent != Digest::default());
    let r: Round = vwit::any_u64();
    // the QC round is concrete (non-zero): it decides the genesis shortcut of get_parent_block
    let qr: Round = 6;
    vwit::assume(r < (1u64 << 62) && qr < r);
    let b = blk(3, r, parent, qr);
    let s0 = snap(&env);
    let res = run_ready(env.core.process_block(&b));
    assert!(res.is_ok());
    assert!(env.rx_sync.len() == 1, "C07 block with a missing parent not handed to the synchronizer");
    let parked = env.rx_sync.try_pop().unwrap();
    assert!(parked.round == r && parked.qc.hash == b.qc.hash, "C07 another block was parked");
    std::mem::forget(parked);
    assert!(env.store.writes() == 0, "C07 block stored before its ancestors were processed");
    assert!(sent_len() == 0 && env.core.last_voted_round == s0.lv, "C07/C03 voted for a block whose ancestors are unknown");
    assert!(env.rx_commit.len() == 0, "C05 commit without the 2-chain in the store");
    assert!(env.core.round == s0.round && env.core.high_qc.round == s0.hq);
    vwit::cover!(r == 7);
    std::mem::forget((res, b));
    std::mem::forget(env);
}
/// handle_proposal of a valid leader block with one payload digest: `present` decides whether the batch is in the store.
/// Missing: exactly one Synchronize(missing, author) to the mempool and one Wait to the payload waiter, no vote, no store
/// write, no commit (C08). Present: processed like an empty-payload block (voted when the rule allows).
fn handle_proposal_payload(present: bool) {
    store::reset();
    // current round 7, node 1 (does not lead round 8)
    let mut env = mk_core(1, &EQ4);
    let b0 = blk(1, 5, Digest::default(), 0);
    let d0 = b0.digest();
    env.store.preload(d0.to_vec(), bincode::serialize(&b0).unwrap());
    let b1 = blk(2, 6, d0.clone(), 5);
    let d1 = b1.digest();
    env.store.preload(d1.to_vec(), bincode::serialize(&b1).unwrap());
    let batch = any_digest();
    vwit::assume(d0 != d1 && d0 != Digest::default() && d1 != Digest::default() && batch != d0 && batch != d1);
    if present {
        env.store.preload(batch.to_vec(), vec![1, 2, 3]);
        // lookups: payload digest (slot 2), then parent(blk) = b1 (slot 1), parent(b1) = b0 (slot 0)
        store::script_strict(&[2, 1, 0]);
    } else {
        store::script_strict(&[store::MISS]);
    }
    env.core.last_committed_round = 4;
    any_node_state_at(&mut env, d0.clone(), 7);
    // the leader of round 7 is key(3)
    let mut b = Block { qc: qc_of(&b1, &[0, 2, 3]), tc: None, author: key(3), round: 7, payload: vec![batch.clone()], signature: Signature::default() };
    let bd = b.digest();
    vwit::assume(bd != d0 && bd != d1 && bd != batch);
    b.signature = sig(3, &bd);
    let s0 = snap(&env);
    let res = run_ready(env.core.handle_proposal(&b));
    assert!(res.is_ok());
    if !present {
        assert!(sent_len() == 0 && env.core.last_voted_round == s0.lv, "C08 voted for a block whose batch is not stored locally");
        assert!(env.store.writes() == 0, "C08 block stored although its payload is missing");
        assert!(env.rx_commit.len() == 0, "C08 commit triggered by a block whose payload is missing");
        assert!(env.rx_mempool.len() == 1, "C08 missing batch not requested from the mempool exactly once");
        match env.rx_mempool.try_pop() {
            Some(mempool::ConsensusMempoolMessage::Synchronize(missing, target)) => {
                assert!(missing.len() == 1 && missing[0] == batch && target == key(3), "C08 wrong sync request for the missing batch");
                std::mem::forget(missing);
            }
            _ => assert!(false, "C08 unexpected mempool message"),
        }
        assert!(env.pw.len() == 1, "C08 block with a missing batch not parked at the payload waiter");
        match env.pw.pop() {
            Some(VerifPWMsg::Wait(missing, blk2)) => {
                assert!(missing.len() == 1 && missing[0] == batch && blk2.round == 7, "C08 wrong block parked");
                std::mem::forget((missing, blk2));
            }
            _ => assert!(false, "C08 unexpected payload-waiter message"),
        }
    } else {
        // batch available: the block is processed; with last_voted < 7 it is voted
        assert!(env.store.writes() == 1, "block with an available payload not stored");
        if s0.lv < 7 {
            assert!(sent_len() == 1 && sent_tag(0) == TAG_VOTE, "C08 available payload: vote expected");
        }
        assert!(env.pw.len() == 1, "payload waiter not told about the committed round"); // Cleanup(5) from the commit path
    }
    vwit::cover!(s0.lv < 7);
    std::mem::forget(res);
    std::mem::forget((b, b0, b1, d0, d1, batch));
    std::mem::forget(env);
}
#[kani::proof]
#[kani::unwind(12)]
#[kani::stub(std::fmt::format, stub_format)]
fn hp_payload_missing() { handle_proposal_payload(false) }
#[kani::proof]
#[kani::unwind(12)]
#[kani::stub(std::fmt::format, stub_format)]
fn hp_payload_present() { handle_proposal_payload(true) }

/// Two proposals processed one after the other (possibly for the same round: an equivocating leader), both extending the
/// certified block of round 6: at most one vote per round, and vote rounds strictly increase.
#[kani::proof]
#[kani::unwind(12)]
#[kani::stub(std::fmt::format, stub_format)]
fn pb_two_proposals() {
    let mut pb = super::kani_core_h::pb_setup_pub(5, 6, 4, 7);
    store::script_strict(&[1, 0, 1, 0]);
    // second block: same parent, symbolic round and author, different content
    let r2: Round = vwit::any_u64();
    let a2: u8 = vwit::any_u8();
    vwit::assume(r2 > 6 && r2 < (1u64 << 62) && a2 < 4);
    let b2 = blk(a2, r2, pb.blk.qc.hash.clone(), 6);
    vwit::assume(b2.digest() != pb.blk.digest());
    let r1 = pb.blk.round;
    let res1 = run_ready(pb.env.core.process_block(&pb.blk));
    assert!(res1.is_ok());
    let n1 = sent_len();
    let res2 = run_ready(pb.env.core.process_block(&b2));
    assert!(res2.is_ok());
    let n2 = sent_len();
    let voted1 = n1 == 1;
    let voted2 = n2 == n1 + 1;
    assert!(n1 <= 1 && n2 <= n1 + 1, "C03 more than one message per processed block");
    if voted1 && voted2 {
        assert!(sent_u64(0, VOTE_ROUND_OFF) == r1 && sent_u64(1, VOTE_ROUND_OFF) == r2);
        assert!(r2 > r1, "C03 two votes for one round / vote rounds not strictly increasing");
    }
    if voted1 {
        assert!(r1 == 7, "C03 voted outside the current round");
    }
    if voted2 {
        assert!(r2 == 7, "C03 voted outside the current round");
    }
    vwit::cover!(voted1 && !voted2 && r2 == r1);
    vwit::cover!(!voted1 && voted2);
    std::mem::forget((res1, res2, b2));
    std::mem::forget(pb);
}

/// Hostile proposal: correctly signed by the round's leader, genesis QC, and a TC with NO entries (or two entries: below
/// quorum). It must be rejected by verification - whatever the embedded QC is - and leave the node untouched; in particular
/// it must never reach the voting rule (whose `max()` over the TC's high-QC rounds panics on an empty TC).
fn hostile_genesis_tc(entries: usize) {
    store::reset();
    let mut env = mk_core(0, &EQ4);
    store::script_strict(&[]);
    env.core.round = 1;
    env.core.last_voted_round = 0;
    env.core.high_qc = QC::genesis();
    let tcr: Round = vwit::any_u64();
    vwit::assume(tcr < (1u64 << 62));
    let tc = if entries == 0 { TC { round: tcr, votes: Vec::new() } } else { tc_of(tcr, &[2, 3], 0) };
    // leader of round 1 is key(1)
    let mut b = Block { qc: QC::genesis(), tc: Some(tc), author: key(1), round: 1, payload: Vec::new(), signature: Signature::default() };
    b.signature = sig(1, &b.digest());
    let s0 = snap(&env);
    let res = run_ready(env.core.handle_proposal(&b));
    assert!(res.is_err(), "C04 proposal with an invalid TC accepted because its QC is the genesis QC");
    assert_untouched(&env, &s0, 0);
    vwit::cover!(tcr == 0);
    std::mem::forget(res);
    std::mem::forget(b);
    std::mem::forget(env);
}
#[kani::proof]
#[kani::unwind(12)]
#[kani::stub(std::fmt::format, stub_format)]
fn hp_genesis_empty_tc() { hostile_genesis_tc(0) }
#[kani::proof]
#[kani::unwind(12)]
#[kani::stub(std::fmt::format, stub_format)]
fn hp_genesis_subquorum_tc() { hostile_genesis_tc(2) }


/// A valid leader proposal that carries BOTH a QC (round 6) and a valid TC (round 8) reaches a node in round `cur`:
/// cur = 3: it enters round 9 on the TC's evidence, and its high QC still becomes the QC of the proposal (the timeout it may
/// sign next must carry at least that QC); cur = 12 (a delayed proposal from an earlier view change): the round never
/// decreases, the QC is still taken into account.
fn handle_proposal_tc(cur: Round) {
    store::reset();
    let end_round: Round = if cur > 9 { cur } else { 9 };
    // leads neither end_round + 1 nor round 10 (where a node that wrongly fell back to round 9 would vote to itself)
    let me = if cur > 9 { 3u8 } else { ((end_round + 2) % 4) as u8 };
    assert!(me as u64 != (end_round + 1) % 4 && me as u64 != 10 % 4);
    let mut env = mk_core(me, &EQ4);
    let b0 = blk(1, 5, Digest::default(), 0);
    let d0 = b0.digest();
    env.store.preload(d0.to_vec(), bincode::serialize(&b0).unwrap());
    let b1 = blk(2, 6, d0.clone(), 5);
    let d1 = b1.digest();
    env.store.preload(d1.to_vec(), bincode::serialize(&b1).unwrap());
    vwit::assume(d0 != d1 && d0 != Digest::default() && d1 != Digest::default());
    store::script_strict(&[1, 0]);
    env.core.last_committed_round = 4;
    any_node_state_at(&mut env, d0.clone(), cur);
    let r: Round = vwit::any_u64();
    vwit::assume(r > 6 && r < (1u64 << 62));
    let author = leader_of(r);
    let mut b = Block { qc: qc_of(&b1, &[0, 1, 2]), tc: Some(tc_of(8, &[0, 1, 2], 0)), author: key(author), round: r, payload: Vec::new(), signature: Signature::default() };
    let bd = b.digest();
    vwit::assume(bd != d0 && bd != d1);
    b.signature = sig(author, &bd);
    let s0 = snap(&env);
    let res = run_ready(env.core.handle_proposal(&b));
    assert!(res.is_ok());
    assert!(env.core.round == end_round, "C10 round after a proposal carrying a TC of round 8 (must be max(current, 9): never decreases)");
    assert!(env.core.high_qc.round == if 6 > s0.hq { 6 } else { s0.hq }, "C10 high_qc not raised to the QC of a TC-carrying proposal");
    let may_vote = end_round == 9 && r == 9 && r > s0.lv;
    if may_vote {
        assert!(env.core.last_voted_round == 9 && sent_len() == 1 && sent_tag(0) == TAG_VOTE, "C03 TC-justified vote expected");
    } else {
        assert!(env.core.last_voted_round == s0.lv && sent_len() == 0, "C03 vote although the rule forbids it");
    }
    vwit::cover!(may_vote || end_round != 9);
    vwit::cover!(!may_vote && s0.hq < 6);
    std::mem::forget(res);
    std::mem::forget((b, b0, b1, d0, d1));
    std::mem::forget(env);
}
#[kani::proof]
#[kani::unwind(12)]
#[kani::stub(std::fmt::format, stub_format)]
fn hp_valid_tc() { handle_proposal_tc(3) }
#[kani::proof]
#[kani::unwind(12)]
#[kani::stub(std::fmt::format, stub_format)]
fn hp_valid_tc_stale() { handle_proposal_tc(12) }

// ===================================================================================== round 5 additions
/// A vote that names the NODE ITSELF as author (the loop-back path and the network path share `handle_vote`, and the author
/// field is chosen by the sender): it must be verified like any other (seeded changes C04-5 / C19-5).
#[kani::proof]
#[kani::unwind(12)]
#[kani::stub(std::fmt::format, stub_format)]
fn hv_single_self() { handle_vote_single(0) }

/// One timeout message through the real `handle_timeout`: author concrete per harness (member 1, the node itself 0, the
/// non-member 4), signature validity symbolic, round symbolic; `bad_qc`: the embedded high QC is a non-genesis QC without votes
/// (must fail verification) instead of the genesis QC.
fn handle_timeout_single(a: u8, bad_qc: bool) {
    store::reset();
    let mut env = mk_core(0, &EQ4);
    any_node_state(&mut env, Digest::default());
    let ok: bool = vwit::any_bool();
    let r: Round = vwit::any_u64();
    vwit::assume(r < (1u64 << 62));
    let high_qc = if bad_qc {
        let hr: Round = vwit::any_u64();
        vwit::assume(hr >= 1 && hr < (1u64 << 62));
        QC { hash: Digest(crypto::DBytes([7; 8])), round: hr, votes: Vec::new() }
    } else {
        QC::genesis()
    };
    let mut t = Timeout { high_qc, round: r, author: key(a), signature: Signature::default() };
    let wrong = any_digest();
    vwit::assume(wrong != t.digest());
    t.signature = if ok { sig(a, &t.digest()) } else { sig(a, &wrong) };
    let s0 = snap(&env);
    let res = run_ready(env.core.handle_timeout(&t));
    if r < s0.round {
        assert!(res.is_ok(), "stale timeout must be ignored silently");
        assert_untouched(&env, &s0, 0);
    } else if a >= 4 || !ok || bad_qc {
        assert!(res.is_err(), "C04/C19/C10 invalid timeout accepted (bad signature, non-member, or unverifiable embedded QC)");
        assert_untouched(&env, &s0, 0);
    } else {
        assert!(res.is_ok());
        // a single timeout (stake 1 of 4) carrying the genesis QC: no certificate, no round change, nothing sent
        assert!(env.core.round == s0.round && env.core.high_qc.round == s0.hq, "C10 round/high_qc moved without a certificate");
        assert!(sent_len() == 0 && env.rx_proposer.len() == 0, "C09 proposal requested without entering a new round");
        assert!(env.rx_commit.len() == 0, "C05 a timeout caused a commit");
        assert!(!env.core.aggregator.verif_is_empty());
    }
    vwit::cover!(a >= 4 || bad_qc || (res.is_ok() && r >= s0.round));
    vwit::cover!(r < s0.round || res.is_err());
    std::mem::forget(res);
    std::mem::forget(t);
    std::mem::forget(env);
}
macro_rules! hto_h {
    ($name:ident, $a:expr, $bad:expr) => {
        #[kani::proof]
        #[kani::unwind(12)]
        #[kani::stub(std::fmt::format, stub_format)]
        fn $name() {
            handle_timeout_single($a, $bad)
        }
    };
}
hto_h!(hto_single, 1, false);
hto_h!(hto_single_self, 0, false);
hto_h!(hto_single_nonmember, 4, false);
hto_h!(hto_bad_qc, 1, true);
hto_h!(hto_bad_qc_self, 0, true);

/// An INVALID proposal (1: block signature wrong, 2: one QC vote wrong) from the right leader whose single batch is not in the
/// store: it must be rejected outright - not parked for its payload (a parked block later re-enters through the loop-back
/// path, which trusts it) - and must not make the node ask the mempool for anything (seeded change C05-5).
fn handle_proposal_payload_bad(bad: u8) {
    store::reset();
    let mut env = mk_core(1, &EQ4);
    let b0 = blk(1, 5, Digest::default(), 0);
    let d0 = b0.digest();
    env.store.preload(d0.to_vec(), bincode::serialize(&b0).unwrap());
    let b1 = blk(2, 6, d0.clone(), 5);
    let d1 = b1.digest();
    env.store.preload(d1.to_vec(), bincode::serialize(&b1).unwrap());
    let batch = any_digest();
    vwit::assume(d0 != d1 && d0 != Digest::default() && d1 != Digest::default() && batch != d0 && batch != d1);
    // at most one lookup is tolerated (the unchanged code performs none: verification comes first); it misses
    store::script_strict(&[store::MISS]);
    env.core.last_committed_round = 4;
    any_node_state_at(&mut env, d0.clone(), 7);
    let mut qc = qc_of(&b1, &[0, 2, 3]);
    if bad == 2 {
        let wrong = any_digest();
        vwit::assume(wrong != qc.digest());
        qc.votes[1].1 = sig(2, &wrong);
    }
    // bad == 3: everything valid and correctly signed, but by member 2, who does not lead round 7 (seeded change C09-5)
    let author: u8 = if bad == 3 { 2 } else { 3 };
    let mut b = Block { qc, tc: None, author: key(author), round: 7, payload: vec![batch.clone()], signature: Signature::default() };
    let bd = b.digest();
    vwit::assume(bd != d0 && bd != d1 && bd != batch);
    b.signature = if bad == 1 {
        let wrong = any_digest();
        vwit::assume(wrong != bd);
        sig(author, &wrong)
    } else {
        sig(author, &bd)
    };
    let s0 = snap(&env);
    let res = run_ready(env.core.handle_proposal(&b));
    assert!(res.is_err(), "C04/C05/C09 invalid or wrong-leader proposal with a missing batch not rejected (parked unverified: it re-enters through the trusted loop-back path)");
    assert!(env.pw.len() == 0, "C05 unverified block parked at the payload waiter: it re-enters through the trusted loop-back path");
    assert_untouched(&env, &s0, 0);
    vwit::cover!(s0.lv < 7 && s0.hq == 5);
    std::mem::forget(res);
    std::mem::forget((b, b0, b1, d0, d1, batch));
    std::mem::forget(env);
}
#[kani::proof]
#[kani::unwind(12)]
#[kani::stub(std::fmt::format, stub_format)]
fn hp_bad_sig_payload_missing() { handle_proposal_payload_bad(1) }
#[kani::proof]
#[kani::unwind(12)]
#[kani::stub(std::fmt::format, stub_format)]
fn hp_bad_qc_payload_missing() { handle_proposal_payload_bad(2) }
#[kani::proof]
#[kani::unwind(12)]
#[kani::stub(std::fmt::format, stub_format)]
fn hp_wrong_leader_payload_missing() { handle_proposal_payload_bad(3) }

//! C19 harnesses attached to consensus/src/aggregator.rs: real Aggregator / QCMaker / TCMaker.
#![allow(unused_imports)]
use super::*;
use crate::config::kani_config_h::{committee_of, key};
use crypto::Hash as _;
// explicit imports: the harness must not depend on which names the real file happens to import
#[allow(unused_imports)]
use crate::consensus::Round;
#[allow(unused_imports)]
use crate::messages::{Timeout, Vote, QC, TC};
#[allow(unused_imports)]
use crypto::{Digest, PublicKey, Signature};

fn any_digest() -> Digest {
    Digest(crypto::DBytes(vwit::any_bytes::<8>()))
}
fn sig(signer: u8, d: &Digest) -> Signature {
    Signature { part1: key(signer).0, part2: (d.0).0 }
}

/// Real QCMaker::append. The author sequence `order` is concrete (it decides which entries exist); the stakes are fully
/// symbolic, constrained only so that the quorum is first crossed at the S-th *distinct* author (S concrete per harness,
/// S = 0: never within the sequence). Every step's result is asserted exactly: nothing before, the QC at that step, nothing
/// after, AuthorityReuse for every repeated author (whose stake must not be counted).
fn qcmaker_at<const K: usize>(order: [u8; K], s_form: usize) {
    let stakes: [Stake; 4] = vwit::any_u32s::<4>();
    let total: u64 = stakes[0] as u64 + stakes[1] as u64 + stakes[2] as u64 + stakes[3] as u64;
    vwit::assume(total >= 1 && total < (1u64 << 31));
    let committee = committee_of(&stakes);
    let q = committee.quorum_threshold() as u64;
    // ghost: weight after each distinct author, in sequence order
    let mut seen = [false; 4];
    let mut w = 0u64;
    let mut distinct = 0usize;
    let mut i = 0;
    while i < K {
        let a = order[i] as usize;
        if !seen[a] {
            seen[a] = true;
            distinct += 1;
            let before = w;
            w += stakes[a] as u64;
            if s_form != 0 && distinct == s_form {
                vwit::assume(before < q && w >= q);
            }
        }
        i += 1;
    }
    if s_form == 0 {
        vwit::assume(w < q);
    }
    let mut maker = QCMaker::new();
    let d = any_digest();
    let r: Round = vwit::any_u64();
    let mut seen2 = [false; 4];
    let mut distinct2 = 0usize;
    let mut step = 0;
    while step < K {
        let a: u8 = order[step];
        let mut vote = Vote { hash: d.clone(), round: r, author: key(a), signature: Signature::default() };
        vote.signature = sig(a, &vote.digest());
        let res = maker.append(vote, &committee);
        if seen2[a as usize] {
            assert!(matches!(res, Err(ConsensusError::AuthorityReuse(_))), "C19 duplicate authority not rejected");
            std::mem::forget(res);
        } else {
            seen2[a as usize] = true;
            distinct2 += 1;
            if distinct2 == s_form {
                match res {
                    Ok(Some(qc)) => {
                        assert!(qc.hash == d && qc.round == r, "C19 QC speaks about another block/round");
                        assert!(qc.votes.len() == distinct2, "C19 QC entry count (an authority counted twice or dropped)");
                        let mut i = 0;
                        while i < qc.votes.len() {
                            let mut who = 4usize;
                            let mut m = 0;
                            while m < 4 {
                                if qc.votes[i].0 == key(m as u8) {
                                    who = m;
                                }
                                m += 1;
                            }
                            assert!(who < 4 && seen2[who], "C19 QC contains an authority that did not vote");
                            let mut j = 0;
                            while j < i {
                                assert!(qc.votes[j].0 != qc.votes[i].0, "C19 QC counts an authority twice");
                                j += 1;
                            }
                            i += 1;
                        }
                        if stakes[0] > 0 && stakes[1] > 0 && stakes[2] > 0 && stakes[3] > 0 {
                            assert!(qc.verify(&committee).is_ok(), "C19 assembled QC does not verify");
                        }
                        std::mem::forget(qc);
                    }
                    Ok(None) => assert!(false, "C19 QC withheld at quorum"),
                    Err(_) => assert!(false, "C19 fresh authority rejected"),
                }
            } else {
                assert!(matches!(res, Ok(None)), "C19 QC assembled below quorum or a second time");
                std::mem::forget(res);
            }
        }
        step += 1;
    }
    vwit::cover!(stakes[0] != stakes[1]);
    std::mem::forget(maker);
    std::mem::forget(committee);
}
macro_rules! qm_h {
    ($name:ident, $k:expr, [$($o:expr),*], $s:expr) => {
        #[kani::proof]
        #[kani::unwind(10)]
        fn $name() {
            qcmaker_at::<$k>([$($o),*], $s)
        }
    };
}
qm_h!(c19_qcmaker_0123_at1, 4, [0, 1, 2, 3], 1);
qm_h!(c19_qcmaker_0123_at2, 4, [0, 1, 2, 3], 2);
qm_h!(c19_qcmaker_0123_at3, 4, [0, 1, 2, 3], 3);
qm_h!(c19_qcmaker_0123_at4, 4, [0, 1, 2, 3], 4);
qm_h!(c19_qcmaker_203_never, 3, [2, 0, 3], 0);
qm_h!(c19_qcmaker_dup_11230_at3, 5, [1, 1, 2, 3, 0], 3);
qm_h!(c19_qcmaker_dup_30332_at2, 5, [3, 0, 3, 3, 2], 2);
qm_h!(c19_qcmaker_dup_2201_at3, 4, [2, 2, 0, 1], 3);
// thorough tier: other author orders / crossing points / late duplicates
qm_h!(c19_qcmaker_3210_at2, 4, [3, 2, 1, 0], 2);
qm_h!(c19_qcmaker_3210_at4, 4, [3, 2, 1, 0], 4);
qm_h!(c19_qcmaker_1302_at1, 4, [1, 3, 0, 2], 1);
qm_h!(c19_qcmaker_dup_01012_at3, 5, [0, 1, 0, 1, 2], 3);
qm_h!(c19_qcmaker_dup_after_0123_3_at3, 5, [0, 1, 2, 3, 3], 3);
qm_h!(c19_qcmaker_dup_00112_never, 5, [0, 0, 1, 1, 2], 0);

/// Real TCMaker::append, same scheme, symbolic high-QC rounds.
fn tcmaker_at<const K: usize>(order: [u8; K], s_form: usize) {
    let stakes: [Stake; 4] = vwit::any_u32s::<4>();
    let total: u64 = stakes[0] as u64 + stakes[1] as u64 + stakes[2] as u64 + stakes[3] as u64;
    vwit::assume(total >= 1 && total < (1u64 << 31));
    let committee = committee_of(&stakes);
    let q = committee.quorum_threshold() as u64;
    let mut seen = [false; 4];
    let mut w = 0u64;
    let mut distinct = 0usize;
    let mut i = 0;
    while i < K {
        let a = order[i] as usize;
        if !seen[a] {
            seen[a] = true;
            distinct += 1;
            let before = w;
            w += stakes[a] as u64;
            if s_form != 0 && distinct == s_form {
                vwit::assume(before < q && w >= q);
            }
        }
        i += 1;
    }
    if s_form == 0 {
        vwit::assume(w < q);
    }
    let mut maker = TCMaker::new();
    let r: Round = vwit::any_u64();
    let hqs: [Round; K] = vwit::any_u64s::<K>();
    let mut seen2 = [false; 4];
    let mut hq = [0u64; 4];
    let mut distinct2 = 0usize;
    let mut step = 0;
    while step < K {
        let a: u8 = order[step];
        let mut t = Timeout {
            high_qc: QC { hash: Digest::default(), round: hqs[step], votes: Vec::new() },
            round: r,
            author: key(a),
            signature: Signature::default(),
        };
        t.signature = sig(a, &t.digest());
        let res = maker.append(t, &committee);
        if seen2[a as usize] {
            assert!(matches!(res, Err(ConsensusError::AuthorityReuse(_))), "C19 duplicate authority not rejected");
            std::mem::forget(res);
        } else {
            seen2[a as usize] = true;
            hq[a as usize] = hqs[step];
            distinct2 += 1;
            if distinct2 == s_form {
                match res {
                    Ok(Some(tc)) => {
                        assert!(tc.round == r && tc.votes.len() == distinct2, "C19 TC round/entry count");
                        let mut i = 0;
                        while i < tc.votes.len() {
                            let mut who = 4usize;
                            let mut m = 0;
                            while m < 4 {
                                if tc.votes[i].0 == key(m as u8) {
                                    who = m;
                                }
                                m += 1;
                            }
                            assert!(who < 4 && seen2[who] && tc.votes[i].2 == hq[who], "C19 TC entry does not carry its author's high-QC round");
                            let mut j = 0;
                            while j < i {
                                assert!(tc.votes[j].0 != tc.votes[i].0, "C19 TC counts an authority twice");
                                j += 1;
                            }
                            i += 1;
                        }
                        if stakes[0] > 0 && stakes[1] > 0 && stakes[2] > 0 && stakes[3] > 0 {
                            assert!(tc.verify(&committee).is_ok(), "C19 assembled TC does not verify");
                        }
                        std::mem::forget(tc);
                    }
                    Ok(None) => assert!(false, "C19 TC withheld at quorum"),
                    Err(_) => assert!(false, "C19 fresh authority rejected"),
                }
            } else {
                assert!(matches!(res, Ok(None)), "C19 TC assembled below quorum or a second time");
                std::mem::forget(res);
            }
        }
        step += 1;
    }
    vwit::cover!(stakes[0] != stakes[1]);
    std::mem::forget(maker);
    std::mem::forget(committee);
}
macro_rules! tm_h {
    ($name:ident, $k:expr, [$($o:expr),*], $s:expr) => {
        #[kani::proof]
        #[kani::unwind(10)]
        fn $name() {
            tcmaker_at::<$k>([$($o),*], $s)
        }
    };
}
tm_h!(c19_tcmaker_3120_at2, 4, [3, 1, 2, 0], 2);
tm_h!(c19_tcmaker_3120_at3, 4, [3, 1, 2, 0], 3);
tm_h!(c19_tcmaker_dup_0221_at3, 4, [0, 2, 2, 1], 3);
// thorough tier
tm_h!(c19_tcmaker_0123_at1, 4, [0, 1, 2, 3], 1);
tm_h!(c19_tcmaker_0123_at4, 4, [0, 1, 2, 3], 4);
tm_h!(c19_tcmaker_dup_3310_at2, 4, [3, 3, 1, 0], 2);
tm_h!(c19_tcmaker_21_never, 2, [2, 1], 0);

/// Real Aggregator with votes for two blocks and two rounds interleaved (keys concrete, authors symbolic):
/// every QC contains only votes cast for exactly its (block, round).
#[kani::proof]
#[kani::unwind(10)]
fn c19_aggregator_no_mixing() {
    let committee = committee_of(&[1, 1, 1, 1]);
    let mut agg = Aggregator::new(committee.clone());
    let d: [Digest; 2] = [Digest(crypto::DBytes([1; 8])), Digest(crypto::DBytes([2; 8]))];
    let r: [Round; 2] = [5, 6];
    // schedule of (round idx, digest idx); the author of each step is symbolic
    const SCHED: [(usize, usize); 7] = [(0, 0), (0, 1), (0, 0), (1, 0), (0, 1), (0, 0), (0, 1)];
    const AUTH: [u8; 7] = [0, 1, 1, 2, 0, 3, 2];
    let mut seen = [[[false; 4]; 2]; 2];
    let mut cnt = [[0usize; 2]; 2];
    let mut qcs = 0usize;
    let mut step = 0;
    while step < 7 {
        let (ri, di) = SCHED[step];
        let a: u8 = AUTH[step];
        let mut vote = Vote { hash: d[di].clone(), round: r[ri], author: key(a), signature: Signature::default() };
        vote.signature = sig(a, &vote.digest());
        let res = agg.add_vote(vote);
        let au = a as usize;
        if seen[ri][di][au] {
            assert!(matches!(res, Err(ConsensusError::AuthorityReuse(_))), "C19 duplicate authority not rejected");
        } else {
            seen[ri][di][au] = true;
            cnt[ri][di] += 1;
            match res {
                Ok(Some(qc)) => {
                    qcs += 1;
                    assert!(cnt[ri][di] == 3, "C19 QC not exactly at the third distinct vote for this block and round");
                    assert!(qc.hash == d[di] && qc.round == r[ri], "C19 QC speaks about another block/round");
                    assert!(qc.votes.len() == 3, "C19 votes of different blocks/rounds mixed into one QC");
                    let mut i = 0;
                    while i < 3 {
                        let mut m = 0;
                        let mut ok = false;
                        while m < 4 {
                            if qc.votes[i].0 == key(m as u8) && seen[ri][di][m] {
                                ok = true;
                            }
                            m += 1;
                        }
                        assert!(ok, "C19 QC contains a vote cast for another block/round");
                        i += 1;
                    }
                    assert!(qc.verify(&committee).is_ok(), "C19 assembled QC does not verify");
                    std::mem::forget(qc);
                }
                Ok(None) => assert!(cnt[ri][di] != 3, "C19 QC withheld at quorum"),
                Err(_) => assert!(false, "C19 fresh authority rejected"),
            }
        }
        step += 1;
    }
    assert!(qcs == 2);
    vwit::cover!(true);
    std::mem::forget(agg);
    std::mem::forget(committee);
}

/// cleanup(round) drops exactly the partial quorums of lower rounds: votes of a cleaned round start from zero.
fn cleanup_check(c: Round) {
    let committee = committee_of(&[1, 1, 1, 1]);
    let mut agg = Aggregator::new(committee.clone());
    let r: Round = 7;
    let d = Digest(crypto::DBytes([3; 8]));
    let mk = |a: u8, round: Round| {
        let mut v = Vote { hash: d.clone(), round, author: key(a), signature: Signature::default() };
        v.signature = sig(a, &v.digest());
        v
    };
    assert!(matches!(agg.add_vote(mk(0, r)), Ok(None)));
    assert!(matches!(agg.add_vote(mk(1, r)), Ok(None)));
    assert!(matches!(agg.add_vote(mk(0, r + 1)), Ok(None)));
    agg.cleanup(&c);
    let res = agg.add_vote(mk(2, r));
    if c <= r {
        assert!(matches!(res, Ok(Some(_))), "C19 cleanup dropped a partial quorum of a current round");
    } else {
        assert!(matches!(res, Ok(None)), "C19 cleanup kept a partial quorum of a past round");
    }
    vwit::cover!(true);
    std::mem::forget(res);
    std::mem::forget(agg);
    std::mem::forget(committee);
}
#[kani::proof]
#[kani::unwind(10)]
fn c19_cleanup_keep() { cleanup_check(7) }
#[kani::proof]
#[kani::unwind(10)]
fn c19_cleanup_drop() { cleanup_check(8) }


//! C07(iii) / C15(d) harnesses attached to consensus/src/helper.rs: the real `Helper::run` (lowered: no select!) answering
//! one sync request against a store that holds a block, arbitrary foreign bytes (the shared store also holds mempool
//! batches) or nothing under the requested digest.
#![allow(unused_imports, dead_code)]
use super::*;
use crate::config::kani_config_h::{addr, committee_of, key};
use crate::messages::{Block, QC};
use crypto::{Hash as _, Signature};
use tokio::sync::mpsc::channel;

pub fn stub_format(_args: std::fmt::Arguments<'_>) -> String {
    String::new()
}
fn run_once(store: Store, digest: Digest, origin: PublicKey) {
    let (tx, rx) = channel(4);
    let mut h = Helper { committee: committee_of(&[1, 1, 1, 1]), store, rx_requests: rx, network: SimpleSender::new() };
    {
        use std::future::Future;
        let w = tokio::noop_waker();
        let mut cx = std::task::Context::from_waker(&w);
        let s = tx.send((digest, origin));
        let mut s = std::pin::pin!(s);
        assert!(s.as_mut().poll(&mut cx).is_ready());
    }
    // closing the channel ends the helper's loop after the queued request (a live node keeps the sender and the loop pends)
    drop(tx);
    let f = h.run();
    let mut f = std::pin::pin!(f);
    {
        use std::future::Future;
        let w = tokio::noop_waker();
        let mut cx = std::task::Context::from_waker(&w);
        assert!(f.as_mut().poll(&mut cx).is_ready(), "helper did not finish the queued request");
    }
    std::mem::forget(h);
}
/// KIND 0: the digest holds a stored block; 1: it holds foreign bytes (a mempool batch); 2: nothing stored.
fn helper_check(kind: u8, member: bool) {
    store::reset();
    let mut store = Store::new("x").unwrap();
    let b = Block {
        qc: QC { hash: Digest(crypto::DBytes(vwit::any_bytes::<8>())), round: vwit::any_u64(), votes: Vec::new() },
        tc: None,
        author: key(1),
        round: vwit::any_u64(),
        payload: Vec::new(),
        signature: Signature::default(),
    };
    let d = b.digest();
    let stored: Vec<u8> = match kind {
        0 => bincode::serialize(&b).unwrap(),
        _ => {
            // arbitrary bytes: what the mempool's Processor stores under a batch digest
            let raw: [u8; 12] = vwit::any_bytes::<12>();
            let mut v = Vec::with_capacity(16);
            let mut i = 0;
            while i < 12 {
                v.push(raw[i]);
                i += 1;
            }
            v
        }
    };
    let stored_len = stored.len();
    if kind != 2 {
        store.preload(d.to_vec(), stored.clone());
        store::script_strict(&[0]);
    } else {
        store::script_strict(&[store::MISS]);
    }
    let origin = if member { key(2) } else { key(4) };
    run_once(store, d.clone(), origin);
    let sent = network::SENT.lock().unwrap();
    if kind == 0 && member {
        // answered with exactly the block stored under the requested digest, as a Propose message, to the requester
        assert!(sent.len() == 1, "C07 sync request for a stored block not answered exactly once");
        assert!(sent[0].to == addr(102), "C07 reply not sent to the requester");
        assert!(sent[0].data.len() == 4 + stored_len, "C07 reply is not Propose(stored block)");
        assert!(sent[0].data[0] == 0 && sent[0].data[1] == 0 && sent[0].data[2] == 0 && sent[0].data[3] == 0, "C07 reply is not a Propose message");
        let mut i = 0;
        while i < stored_len {
            assert!(sent[0].data[4 + i] == stored[i], "C07 reply differs from the stored block");
            i += 1;
        }
    } else if kind == 2 || !member {
        assert!(sent.len() == 0, "C07 reply to an unknown requester / for an unknown digest");
    }
    // kind 1 (foreign bytes under the digest): whatever is or is not sent, the helper must survive (no panic = C15)
    vwit::cover!(true);
    std::mem::forget((b, d, stored));
}
macro_rules! ch_h {
    ($name:ident, $kind:expr, $member:expr) => {
        #[kani::proof]
        #[kani::unwind(64)]
        #[kani::stub(std::fmt::format, stub_format)]
        fn $name() {
            helper_check($kind, $member)
        }
    };
}
ch_h!(chelper_block_member, 0, true);
ch_h!(chelper_block_nonmember, 0, false);
ch_h!(chelper_missing, 2, true);
ch_h!(chelper_foreign_bytes, 1, true);

//! C16 harnesses attached to the REAL store/src/lib.rs (profile S): the command loop runs as a registered task of the
//! sequential tokio shim over an in-memory rocksdb model; the harness issues commands through several cloned handles and
//! polls the store task at chosen points. Keys and command schedules are concrete, values are symbolic.
#![allow(unused_imports, dead_code)]
use super::*;
use std::future::Future;
use std::pin::Pin;
use std::task::{Context, Poll};

fn poll<F: Future>(f: Pin<&mut F>) -> Option<F::Output> {
    let w = tokio::noop_waker();
    let mut cx = Context::from_waker(&w);
    match f.poll(&mut cx) {
        Poll::Ready(v) => Some(v),
        Poll::Pending => None,
    }
}
fn run_store() {
    // the store task never terminates while a handle exists
    assert!(!tokio::__verif_poll_task(0), "C16 store task terminated");
}
fn mk() -> Store {
    tokio::CTL.lock().unwrap().spawn_register = true;
    Store::new("x").unwrap()
}
fn val(b: u8) -> Vec<u8> {
    vec![b]
}
/// issue a write through handle `s` and let the store task process it
fn write(s: &mut Store, k: u8, v: u8) {
    let f = s.write(vec![k], val(v));
    let mut f = std::pin::pin!(f);
    assert!(poll(f.as_mut()).is_some(), "write must not block the caller");
    run_store();
}
fn read(s: &mut Store, k: u8) -> Option<Vec<u8>> {
    let f = s.read(vec![k]);
    let mut f = std::pin::pin!(f);
    assert!(poll(f.as_mut()).is_none(), "read completed before the store task ran");
    run_store();
    match poll(f.as_mut()) {
        Some(Ok(v)) => v,
        Some(Err(_)) => {
            assert!(false, "store error");
            None
        }
        None => {
            assert!(false, "C16 read not answered");
            None
        }
    }
}

/// reads see the latest write; writes to one key apply in issue order; unknown keys read as nothing
#[kani::proof]
#[kani::unwind(8)]
fn c16_read_latest_write() {
    let mut a = mk();
    let mut b = a.clone();
    let v1: u8 = vwit::any_u8();
    let v2: u8 = vwit::any_u8();
    let v3: u8 = vwit::any_u8();
    assert!(read(&mut a, 1).is_none(), "C16 never-written key has a value");
    write(&mut a, 1, v1);
    let r = read(&mut b, 1);
    assert!(r.is_some() && r.as_ref().unwrap().len() == 1 && r.as_ref().unwrap()[0] == v1, "C16 read does not return the written value");
    write(&mut b, 1, v2);
    write(&mut a, 2, v3);
    let r = read(&mut a, 1);
    assert!(r.is_some() && r.as_ref().unwrap()[0] == v2, "C16 read does not return the latest write");
    let r = read(&mut b, 2);
    assert!(r.is_some() && r.as_ref().unwrap()[0] == v3, "C16 keys interfere");
    assert!(read(&mut b, 3).is_none());
    // two writes queued before the store task runs: applied in issue order
    {
        let f1 = a.write(vec![1], val(v3));
        let mut f1 = std::pin::pin!(f1);
        assert!(poll(f1.as_mut()).is_some());
        let f2 = b.write(vec![1], val(v1));
        let mut f2 = std::pin::pin!(f2);
        assert!(poll(f2.as_mut()).is_some());
        run_store();
    }
    let r = read(&mut a, 1);
    assert!(r.is_some() && r.as_ref().unwrap()[0] == v1, "C16 queued writes applied out of issue order");
    vwit::cover!(v1 != v2 && v2 != v3);
    std::mem::forget((a, b));
}

/// notify_read: immediate when the key exists; otherwise completes on the first later write with that write's value,
/// for several concurrent waiters, and waiters of other keys are not disturbed.
#[kani::proof]
#[kani::unwind(8)]
fn c16_notify_read() {
    let mut a = mk();
    let mut b = a.clone();
    let mut c = a.clone();
    let mut d = a.clone();
    let v1: u8 = vwit::any_u8();
    let v2: u8 = vwit::any_u8();
    let v3: u8 = vwit::any_u8();
    {
        // two waiters on key 1, one on key 2, all registered before any write
        let w1 = b.notify_read(vec![1]);
        let mut w1 = std::pin::pin!(w1);
        let w2 = c.notify_read(vec![1]);
        let mut w2 = std::pin::pin!(w2);
        let w3 = d.notify_read(vec![2]);
        let mut w3 = std::pin::pin!(w3);
        assert!(poll(w1.as_mut()).is_none() && poll(w2.as_mut()).is_none() && poll(w3.as_mut()).is_none());
        run_store();
        assert!(poll(w1.as_mut()).is_none() && poll(w2.as_mut()).is_none() && poll(w3.as_mut()).is_none(), "C16 notify_read completed without a value");
        // a write to key 2 wakes only its waiter
        write(&mut a, 2, v2);
        match poll(w3.as_mut()) {
            Some(Ok(v)) => assert!(v.len() == 1 && v[0] == v2, "C16 waiter woken with a wrong value"),
            _ => assert!(false, "C16 lost wake-up: waiter not completed by the write to its key"),
        }
        assert!(poll(w1.as_mut()).is_none() && poll(w2.as_mut()).is_none(), "C16 waiter woken by a write to another key");
        // first write to key 1 wakes both waiters with that value; a later overwrite does not matter
        write(&mut a, 1, v1);
        write(&mut a, 1, v3);
        match poll(w1.as_mut()) {
            Some(Ok(v)) => assert!(v.len() == 1 && v[0] == v1, "C16 waiter did not get the first write's value"),
            _ => assert!(false, "C16 lost wake-up (first waiter)"),
        }
        match poll(w2.as_mut()) {
            Some(Ok(v)) => assert!(v.len() == 1 && v[0] == v1, "C16 second waiter did not get the first write's value"),
            _ => assert!(false, "C16 lost wake-up (second waiter)"),
        }
    }
    // issued after the writes: completes as soon as the store task runs, with the current value
    {
        let w4 = b.notify_read(vec![1]);
        let mut w4 = std::pin::pin!(w4);
        assert!(poll(w4.as_mut()).is_none());
        run_store();
        match poll(w4.as_mut()) {
            Some(Ok(v)) => assert!(v.len() == 1 && v[0] == v3, "C16 notify_read on an existing key returned a stale value"),
            _ => assert!(false, "C16 notify_read on an existing key did not complete"),
        }
    }
    vwit::cover!(v1 != v3);
    std::mem::forget((a, b, c, d));
}

#[kani::proof]
#[kani::unwind(8)]
fn dbg_store_min() {
    let mut a = mk();
    let v1: u8 = vwit::any_u8();
    write(&mut a, 1, v1);
    let r = read(&mut a, 1);
    assert!(r.is_some() && r.as_ref().unwrap()[0] == v1);
    std::mem::forget(a);
}

//! C16 harnesses attached to the REAL store/src/lib.rs (profile S). The command loop that `Store::new` hands to
//! `tokio::spawn` is made callable by the overlay (`Store::verif_new`, generated from the text of `new` on every run: the
//! spawned block becomes a closure that processes every queued command and returns when the queue is empty); it runs over
//! an in-memory rocksdb model. The harness issues commands through several cloned handles with the REAL `write` / `read` /
//! `notify_read` futures and runs the store task at chosen points. Keys and command schedules are concrete, values symbolic.
#![allow(unused_imports, dead_code)]
use super::*;
use std::future::Future;
use std::pin::Pin;
use std::task::{Context, Poll};

fn poll<F: Future>(f: Pin<&mut F>) -> Option<F::Output> {
    let w = tokio::noop_waker();
    let mut cx = Context::from_waker(&w);
    match f.poll(&mut cx) {
        Poll::Ready(v) => Some(v),
        Poll::Pending => None,
    }
}
/// poll and report "still pending" without dropping what was read back (a drop of a value merged from heap state would
/// free a symbolic pointer and cost the rest of the run its constant shapes)
macro_rules! is_pending {
    ($w:expr) => {{
        let r = poll($w.as_mut());
        let p = r.is_none();
        std::mem::forget(r);
        p
    }};
}
macro_rules! read_is_none {
    ($s:expr, $t:expr, $k:expr) => {{
        let r = read(&mut $s, &mut $t, $k);
        let p = r.is_none();
        std::mem::forget(r);
        p
    }};
}
macro_rules! mk {
    ($a:ident, $task:ident) => {
        let (mut $a, mut $task) = match Store::verif_new("x") {
            Ok(x) => x,
            Err(_) => panic!("store did not open"),
        };
    };
}
fn val(b: u8) -> Vec<u8> {
    vec![b]
}
/// issue a write through handle `s` and let the store task process it
fn write<T: FnMut()>(s: &mut Store, run_store: &mut T, k: u8, v: u8) {
    let f = s.write(vec![k], val(v));
    let mut f = std::pin::pin!(f);
    assert!(poll(f.as_mut()).is_some(), "write must not block the caller");
    run_store();
}
fn read<T: FnMut()>(s: &mut Store, run_store: &mut T, k: u8) -> Option<Vec<u8>> {
    let f = s.read(vec![k]);
    let mut f = std::pin::pin!(f);
    assert!(is_pending!(f), "read completed before the store task ran");
    run_store();
    match poll(f.as_mut()) {
        Some(Ok(v)) => v,
        Some(Err(_)) => {
            assert!(false, "store error");
            None
        }
        None => {
            assert!(false, "C16 read not answered");
            None
        }
    }
}

macro_rules! issue_write {
    ($s:expr, $k:expr, $v:expr) => {{
        let f = $s.write(vec![$k], val($v));
        let mut f = std::pin::pin!(f);
        assert!(poll(f.as_mut()).is_some(), "write must not block the caller");
    }};
}
macro_rules! expect_value {
    ($w:expr, $v:expr, $msg:expr) => {
        match poll($w.as_mut()) {
            Some(Ok(v)) => {
                assert!(v.len() == 1 && v[0] == $v, $msg);
                std::mem::forget(v);
            }
            _ => assert!(false, $msg),
        }
    };
}
macro_rules! h {
    ($name:ident, $body:block) => {
        #[kani::proof]
        #[kani::unwind(10)]
        fn $name() $body
    };
}

// ---- read / write
h!(c16_read_unknown, {
    mk!(a, run_store);
    assert!(read_is_none!(a, run_store, 1), "C16 never-written key has a value");
    std::mem::forget(a);
});
h!(c16_read_other_key_unknown, {
    mk!(a, run_store);
    let v1: u8 = vwit::any_u8();
    write(&mut a, &mut run_store, 2, v1);
    assert!(read_is_none!(a, run_store, 1), "C16 a write to another key gave this key a value");
    vwit::cover!(v1 > 3);
    std::mem::forget(a);
});
h!(c16_write_read_other_handle, {
    mk!(a, run_store);
    let mut b = a.clone();
    let v1: u8 = vwit::any_u8();
    write(&mut a, &mut run_store, 1, v1);
    let r = read(&mut b, &mut run_store, 1);
    assert!(r.is_some() && r.as_ref().unwrap().len() == 1 && r.as_ref().unwrap()[0] == v1, "C16 read does not return the written value");
    vwit::cover!(v1 > 3);
    std::mem::forget((a, b, r));
});
h!(c16_overwrite, {
    mk!(a, run_store);
    let mut b = a.clone();
    let v1: u8 = vwit::any_u8();
    let v2: u8 = vwit::any_u8();
    write(&mut a, &mut run_store, 1, v1);
    write(&mut b, &mut run_store, 1, v2);
    let r = read(&mut a, &mut run_store, 1);
    assert!(r.is_some() && r.as_ref().unwrap().len() == 1 && r.as_ref().unwrap()[0] == v2, "C16 read does not return the latest write");
    vwit::cover!(v1 != v2);
    std::mem::forget((a, b, r));
});
h!(c16_keys_independent, {
    mk!(a, run_store);
    let v1: u8 = vwit::any_u8();
    let v2: u8 = vwit::any_u8();
    write(&mut a, &mut run_store, 1, v1);
    write(&mut a, &mut run_store, 2, v2);
    let r = read(&mut a, &mut run_store, 1);
    assert!(r.is_some() && r.as_ref().unwrap().len() == 1 && r.as_ref().unwrap()[0] == v1, "C16 keys interfere");
    vwit::cover!(v1 != v2);
    std::mem::forget((a, r));
});
// two writes and a read queued from different handles before the store task runs: applied in issue order
h!(c16_queued_in_issue_order, {
    mk!(a, run_store);
    let mut b = a.clone();
    let mut c = a.clone();
    let v1: u8 = vwit::any_u8();
    let v2: u8 = vwit::any_u8();
    issue_write!(a, 1, v1);
    issue_write!(b, 1, v2);
    let f = c.read(vec![1]);
    let mut f = std::pin::pin!(f);
    assert!(is_pending!(f), "read completed before the store task ran");
    run_store();
    match poll(f.as_mut()) {
        Some(Ok(Some(v))) => {
            assert!(v.len() == 1 && v[0] == v2, "C16 queued writes applied out of issue order / read overtook a write");
            std::mem::forget(v);
        }
        _ => assert!(false, "C16 read not answered"),
    }
    vwit::cover!(v1 != v2);
    std::mem::forget((a, b, c));
});
// ---- notify_read
h!(c16_notify_existing, {
    mk!(a, run_store);
    let mut b = a.clone();
    let v1: u8 = vwit::any_u8();
    write(&mut a, &mut run_store, 1, v1);
    let w = b.notify_read(vec![1]);
    let mut w = std::pin::pin!(w);
    assert!(is_pending!(w));
    run_store();
    expect_value!(w, v1, "C16 notify_read on an existing key did not complete with its value");
    vwit::cover!(v1 > 3);
    std::mem::forget((a, b));
});
h!(c16_notify_pending, {
    mk!(a, run_store);
    let w = a.notify_read(vec![1]);
    let mut w = std::pin::pin!(w);
    assert!(is_pending!(w));
    run_store();
    assert!(is_pending!(w), "C16 notify_read completed without a value");
    std::mem::forget(a);
});
// NOT IN THE SPEC (kept as the record of what was measured): every schedule in which the store task processes another
// command after one that was answered with "no value" (a read miss or a parked notify_read) did not finish symbolic
// execution in 900 s; the completion of a parked notify_read by a later write is therefore outside the C16 claim.
h!(c16_notify_then_write, {
    mk!(a, run_store);
    let mut b = a.clone();
    let v1: u8 = vwit::any_u8();
    let w = b.notify_read(vec![1]);
    let mut w = std::pin::pin!(w);
    assert!(is_pending!(w));
    run_store();
    assert!(is_pending!(w), "C16 notify_read completed without a value");
    write(&mut a, &mut run_store, 1, v1);
    expect_value!(w, v1, "C16 lost wake-up: waiter not completed by the write to its key (or wrong value)");
    vwit::cover!(v1 > 3);
    std::mem::forget((a, b));
});
h!(c16_notify_two_waiters, {
    mk!(a, run_store);
    let mut b = a.clone();
    let mut c = a.clone();
    let v1: u8 = vwit::any_u8();
    let w1 = b.notify_read(vec![1]);
    let mut w1 = std::pin::pin!(w1);
    let w2 = c.notify_read(vec![1]);
    let mut w2 = std::pin::pin!(w2);
    assert!(is_pending!(w1) && is_pending!(w2));
    run_store();
    write(&mut a, &mut run_store, 1, v1);
    expect_value!(w1, v1, "C16 lost wake-up (first waiter)");
    expect_value!(w2, v1, "C16 lost wake-up (second waiter)");
    vwit::cover!(v1 > 3);
    std::mem::forget((a, b, c));
});
h!(c16_notify_other_key, {
    mk!(a, run_store);
    let mut b = a.clone();
    let v2: u8 = vwit::any_u8();
    let w = b.notify_read(vec![1]);
    let mut w = std::pin::pin!(w);
    assert!(is_pending!(w));
    run_store();
    write(&mut a, &mut run_store, 2, v2);
    assert!(is_pending!(w), "C16 waiter woken by a write to another key");
    let r = read(&mut a, &mut run_store, 2);
    assert!(r.is_some() && r.as_ref().unwrap().len() == 1 && r.as_ref().unwrap()[0] == v2, "C16 write lost while a waiter is registered");
    vwit::cover!(v2 > 3);
    std::mem::forget((a, b, r));
});
h!(c16_notify_first_write_wins, {
    mk!(a, run_store);
    let mut b = a.clone();
    let v1: u8 = vwit::any_u8();
    let v3: u8 = vwit::any_u8();
    let w = b.notify_read(vec![1]);
    let mut w = std::pin::pin!(w);
    assert!(is_pending!(w));
    run_store();
    write(&mut a, &mut run_store, 1, v1);
    write(&mut a, &mut run_store, 1, v3);
    expect_value!(w, v1, "C16 waiter did not get the first write's value");
    vwit::cover!(v1 != v3);
    std::mem::forget((a, b));
});

// ---- one-step harnesses over the state-passing variant (Store::verif_new_st): the waiter table `obligations` is owned by
// the harness between runs of the REAL command loop, so (a) the table the loop leaves behind after parking is observable and
// (b) a step can start from a table with parked waiters built directly (real oneshot channels), i.e. the wake-up clauses are
// decided as: parking step (table after = exactly the shape the wake-up step starts from) + wake-up step from that shape.
type Obl = HashMap<Key, VecDeque<oneshot::Sender<StoreResult<Value>>>>;
macro_rules! mk_st {
    ($a:ident, $task:ident, $obl:ident) => {
        let (mut $a, mut $task, mut $obl) = match Store::verif_new_st("x") {
            Ok(x) => x,
            Err(_) => panic!("store did not open"),
        };
    };
}
fn obl_count(o: &Obl, k: u8) -> usize {
    // number of waiters parked under key [k] (0 if the key has no entry)
    let mut i = 0;
    while i < o.n {
        if let Some((kk, q)) = &o.items[i] {
            if kk.len() == 1 && kk[0] == k {
                return q.len();
            }
        }
        i += 1;
    }
    0
}
macro_rules! rx_value {
    ($r:expr, $v:expr, $msg:expr) => {{
        let mut r = std::pin::pin!($r);
        match poll(r.as_mut()) {
            Some(Ok(Ok(v))) => {
                assert!(v.len() == 1 && v[0] == $v, $msg);
                std::mem::forget(v);
            }
            _ => assert!(false, $msg),
        }
    }};
}
macro_rules! rx_pending {
    ($r:expr) => {{
        let mut r = std::pin::pin!($r);
        let x = poll(r.as_mut());
        let p = x.is_none();
        std::mem::forget(x);
        p
    }};
}
// parking step: a notify_read of a missing key leaves exactly one waiter under exactly that key, nothing else
h!(c16_st_park_one, {
    mk_st!(a, task, obl);
    let w = a.notify_read(vec![1]);
    let mut w = std::pin::pin!(w);
    assert!(is_pending!(w));
    task(&mut obl);
    assert!(is_pending!(w), "C16 notify_read completed without a value");
    assert!(obl.len() == 1 && obl_count(&obl, 1) == 1, "C16 waiter not parked under its key (lost wake-up follows)");
    std::mem::forget((a, obl));
});
// NOT IN THE SPEC (measured: no result in 900 s, like every run in which a no-value answer meets a non-empty table):
// parking step from a table that already holds a waiter for that key: appended BEHIND it (one command)
h!(c16_st_park_behind, {
    mk_st!(a, task, obl);
    let (s0, r0) = oneshot::channel::<StoreResult<Value>>();
    let mut q = VecDeque::new();
    q.push_back(s0);
    obl.insert(vec![1], q);
    let w = a.notify_read(vec![1]);
    let mut w = std::pin::pin!(w);
    task(&mut obl);
    assert!(is_pending!(w), "C16 notify_read completed without a value");
    assert!(rx_pending!(r0), "C16 parked waiter disturbed by another notify_read");
    assert!(obl.len() == 1 && obl_count(&obl, 1) == 2, "C16 second waiter not parked under its key");
    std::mem::forget((a, obl));
});
// NOT IN THE SPEC (measured: timeout at 900 s): parking step from a table that holds a waiter for ANOTHER key: separate entry, the other one untouched (one command)
h!(c16_st_park_other_key, {
    mk_st!(a, task, obl);
    let (s0, r0) = oneshot::channel::<StoreResult<Value>>();
    let mut q = VecDeque::new();
    q.push_back(s0);
    obl.insert(vec![1], q);
    let w = a.notify_read(vec![2]);
    let mut w = std::pin::pin!(w);
    task(&mut obl);
    assert!(is_pending!(w), "C16 notify_read completed without a value");
    assert!(rx_pending!(r0), "C16 parked waiter disturbed by another notify_read");
    assert!(obl.len() == 2 && obl_count(&obl, 1) == 1 && obl_count(&obl, 2) == 1, "C16 waiter not parked under its own key");
    std::mem::forget((a, obl));
});
// invariant "a key with a value has no parked waiters": a notify_read of an existing key is answered and NOT parked
h!(c16_st_existing_not_parked, {
    mk_st!(a, task, obl);
    let v1: u8 = vwit::any_u8();
    issue_write!(a, 1, v1);
    task(&mut obl);
    let w = a.notify_read(vec![1]);
    let mut w = std::pin::pin!(w);
    task(&mut obl);
    expect_value!(w, v1, "C16 notify_read on an existing key did not complete with its value");
    assert!(obl.len() == 0, "C16 waiter parked although the key has a value");
    vwit::cover!(v1 > 3);
    std::mem::forget((a, obl));
});
// wake-up step: two waiters parked under key 1, one under key 2; Write(1, v) completes both key-1 waiters with v, removes
// the entry, leaves the key-2 waiter parked and pending
h!(c16_st_wake_two, {
    mk_st!(a, task, obl);
    let (s1, r1) = oneshot::channel::<StoreResult<Value>>();
    let (s2, r2) = oneshot::channel::<StoreResult<Value>>();
    let (s3, r3) = oneshot::channel::<StoreResult<Value>>();
    let mut q1 = VecDeque::new();
    q1.push_back(s1);
    q1.push_back(s2);
    let mut q2 = VecDeque::new();
    q2.push_back(s3);
    obl.insert(vec![1], q1);
    obl.insert(vec![2], q2);
    let v: u8 = vwit::any_u8();
    issue_write!(a, 1, v);
    task(&mut obl);
    rx_value!(r1, v, "C16 lost wake-up: first parked waiter not completed by the write to its key (or wrong value)");
    rx_value!(r2, v, "C16 lost wake-up: second parked waiter not completed by the write to its key (or wrong value)");
    assert!(rx_pending!(r3), "C16 waiter woken by a write to another key");
    assert!(obl.len() == 1 && obl_count(&obl, 1) == 0 && obl_count(&obl, 2) == 1, "C16 waiter table after a write: key entry not cleared / other key disturbed");
    vwit::cover!(v > 3);
    std::mem::forget((a, obl));
});
// wake-up step, then the value is there: one parked waiter, two queued writes to its key: completes with the FIRST value,
// and a read afterwards (queued behind them) returns the second
h!(c16_st_wake_first_write, {
    mk_st!(a, task, obl);
    let (s1, r1) = oneshot::channel::<StoreResult<Value>>();
    let mut q1 = VecDeque::new();
    q1.push_back(s1);
    obl.insert(vec![1], q1);
    let v: u8 = vwit::any_u8();
    let v2: u8 = vwit::any_u8();
    issue_write!(a, 1, v);
    issue_write!(a, 1, v2);
    task(&mut obl);
    rx_value!(r1, v, "C16 waiter did not get the first write's value");
    assert!(obl.len() == 0, "C16 waiter table not cleared by the write");
    vwit::cover!(v != v2);
    std::mem::forget((a, obl));
});

// ---- full wake-up schedules over the state-passing variant (parking and wake-up in one history)
h!(c16_st_notify_then_write, {
    mk_st!(a, task, obl);
    let mut b = a.clone();
    let v1: u8 = vwit::any_u8();
    let w = b.notify_read(vec![1]);
    let mut w = std::pin::pin!(w);
    assert!(is_pending!(w));
    task(&mut obl);
    assert!(is_pending!(w), "C16 notify_read completed without a value");
    issue_write!(a, 1, v1);
    task(&mut obl);
    expect_value!(w, v1, "C16 lost wake-up: waiter not completed by the write to its key (or wrong value)");
    assert!(obl.len() == 0, "C16 waiter table not cleared by the write");
    vwit::cover!(v1 > 3);
    std::mem::forget((a, b, obl));
});
// the race of seeded change C16-4: the write is queued BEHIND the notify_read before the store task runs at all
h!(c16_st_notify_write_queued, {
    mk_st!(a, task, obl);
    let mut b = a.clone();
    let v1: u8 = vwit::any_u8();
    let w = b.notify_read(vec![1]);
    let mut w = std::pin::pin!(w);
    assert!(is_pending!(w));
    issue_write!(a, 1, v1);
    task(&mut obl);
    expect_value!(w, v1, "C16 lost wake-up: write queued right behind the notify_read");
    assert!(obl.len() == 0, "C16 waiter table not cleared by the write");
    vwit::cover!(v1 > 3);
    std::mem::forget((a, b, obl));
});
// NOT IN THE SPEC (measured: timeout at 900 s)
h!(c16_st_two_waiters_then_write, {
    mk_st!(a, task, obl);
    let mut b = a.clone();
    let mut c = a.clone();
    let v1: u8 = vwit::any_u8();
    let w1 = b.notify_read(vec![1]);
    let mut w1 = std::pin::pin!(w1);
    let w2 = c.notify_read(vec![1]);
    let mut w2 = std::pin::pin!(w2);
    assert!(is_pending!(w1) && is_pending!(w2));
    task(&mut obl);
    issue_write!(a, 1, v1);
    task(&mut obl);
    expect_value!(w1, v1, "C16 lost wake-up (first waiter)");
    expect_value!(w2, v1, "C16 lost wake-up (second waiter)");
    vwit::cover!(v1 > 3);
    std::mem::forget((a, b, c, obl));
});

#[kani::proof]
#[kani::unwind(10)]
fn dbg_store_min() {
    mk!(a, run_store);
    let v1: u8 = vwit::any_u8();
    write(&mut a, &mut run_store, 1, v1);
    let r = read(&mut a, &mut run_store, 1);
    assert!(r.is_some() && r.as_ref().unwrap()[0] == v1);
    std::mem::forget(a);
}

import sys, time
from z3 import *
# rule knobs (to be filled from the Kani-extracted rule table)
RULE1 = '--no-rule1' not in sys.argv      # vote only if round > last_voted
TO_BUMP = '--no-bump' not in sys.argv     # timeout raises last_voted
TC_HQ = '--no-tchq' not in sys.argv       # TC branch requires qc.round >= max hq
GAP = 2 if '--gap2' in sys.argv else 1    # commit rule b0.round + GAP == b1.round
QDELTA = -1 if '--lowq' in sys.argv else 0
N = 4; F = 1; Q = 2*N//3 + 1 + QDELTA
K = int([a for a in sys.argv if a.startswith('K=')][0][2:]) if any(a.startswith('K=') for a in sys.argv) else 6
R = K + 1
s = Solver()
byz = [Bool(f'byz{n}') for n in range(N)]
s.add(Sum([If(b,1,0) for b in byz]) <= F)
B = range(1, K+1)
r = {0: IntVal(0)}; p = {}; has_tc = {}; tcr = {}; mhq = {}
for b in B:
    r[b] = Int(f'r{b}'); p[b] = Int(f'p{b}'); has_tc[b] = Bool(f'htc{b}'); tcr[b] = Int(f'tcr{b}'); mhq[b] = Int(f'mhq{b}')
    s.add(r[b] >= 1, r[b] <= R, p[b] >= 0, p[b] < b)
def rr(x):  # round of block index expr
    e = IntVal(0)
    for b in B: e = If(x == b, r[b], e)
    return e
v = {(n,b): Bool(f'v{n}_{b}') for n in range(N) for b in B}
tv = {(n,b): Int(f'tv{n}_{b}') for n in range(N) for b in B}
to = {(n,q): Bool(f'to{n}_{q}') for n in range(N) for q in range(1,R+1)}
tt = {(n,q): Int(f'tt{n}_{q}') for n in range(N) for q in range(1,R+1)}
hq = {(n,q): Int(f'hq{n}_{q}') for n in range(N) for q in range(1,R+1)}
cert = {0: BoolVal(True)}
for b in B: cert[b] = Sum([If(v[n,b],1,0) for n in range(N)]) >= Q
def certx(x):
    e = (x == 0)
    for b in B: e = Or(e, And(x == b, cert[b]))
    return e
qcr = {b: rr(p[b]) for b in B}
# TC validity for block b: signer set
S = {(n,b): Bool(f'S{n}_{b}') for n in range(N) for b in B}
for b in B:
    s.add(Implies(has_tc[b], Sum([If(S[n,b],1,0) for n in range(N)]) >= Q))
    for n in range(N):
        for q in range(1,R+1):
            s.add(Implies(And(has_tc[b], S[n,b], tcr[b] == q), And(to[n,q], mhq[b] >= hq[n,q])))
    s.add(Implies(has_tc[b], And(tcr[b] >= 1, tcr[b] <= R)))
# honest behaviour
for n in range(N):
    h = Not(byz[n])
    for b in B:
        ok2 = Or(qcr[b] + 1 == r[b], And(has_tc[b], tcr[b] + 1 == r[b], (qcr[b] >= mhq[b]) if TC_HQ else BoolVal(True)))
        s.add(Implies(And(h, v[n,b]), And(certx(p[b]), ok2, tv[n,b] >= 0)))
        for b2 in B:
            if b2 != b:
                s.add(Implies(And(h, v[n,b], v[n,b2]), tv[n,b] != tv[n,b2]))
                # later vote: round gate (round monotone) and rule 1
                s.add(Implies(And(h, v[n,b], v[n,b2], tv[n,b] < tv[n,b2]), (r[b2] > r[b]) if RULE1 else (r[b2] >= r[b])))
        for q in range(1,R+1):
            s.add(Implies(And(h, v[n,b], to[n,q]), tv[n,b] != tt[n,q]))
            # vote then timeout: round monotone; timeout carries high_qc >= qc of voted block
            s.add(Implies(And(h, v[n,b], to[n,q], tv[n,b] < tt[n,q]), And(q >= r[b], hq[n,q] >= qcr[b])))
            # timeout then vote
            s.add(Implies(And(h, v[n,b], to[n,q], tt[n,q] < tv[n,b]), (r[b] > q) if TO_BUMP else (r[b] >= q)))
    for q in range(1,R+1):
        # reported high qc is the round of some certified block (or genesis)
        s.add(Implies(And(h, to[n,q]), Or(hq[n,q] == 0, *[And(cert[b], hq[n,q] == r[b]) for b in B])))
        s.add(Implies(And(h, to[n,q]), hq[n,q] < q))
# commits
def committed(b):
    return Or(*[And(p[c] == b, r[c] == r[b] + GAP, cert[c], cert[b]) for c in B if c > b])
# ancestor relation (reflexive) via bounded unrolling
def anc(a, b):  # a ancestor-or-equal of b, a,b python ints
    # follow parents from b up to K steps
    cur = IntVal(b); e = BoolVal(a == b)
    for _ in range(K):
        nxt = IntVal(0)
        for x in B: nxt = If(cur == x, p[x], nxt)
        cur = nxt
        e = Or(e, cur == a)
    return e
viol = Or(*[And(committed(a), committed(b), Not(anc(a,b)), Not(anc(b,a))) for a in B for b in B if a < b])
s.add(viol)
t0 = time.time(); res = s.check(); dt = time.time() - t0
print(res, f'{dt:.2f}s', 'K=',K, 'Q=',Q, dict(RULE1=RULE1,TO_BUMP=TO_BUMP,TC_HQ=TC_HQ,GAP=GAP))
if res == sat:
    m = s.model()
    print('byz', [n for n in range(N) if is_true(m.eval(byz[n]))])
    for b in B:
        print('block',b,'r',m.eval(r[b]),'parent',m.eval(p[b]),'tc',m.eval(has_tc[b]), m.eval(tcr[b]), m.eval(mhq[b]), 'votes',[n for n in range(N) if is_true(m.eval(v[n,b]))], 'cert', m.eval(cert[b]))

#![allow(dead_code)]
#[derive(Copy, Clone, Eq, PartialEq, Default)]
pub struct K32(pub [u8; 32]);
fn key(i: u8) -> K32 { let mut k = [0u8; 32]; k[0] = i + 1; K32(k) }
#[cfg(kani)]
mod h {
    use super::*;
    #[kani::proof] #[kani::unwind(34)]
    fn h1_vec_new_push4() {
        let mut v: Vec<K32> = Vec::new();
        for i in 0..4u8 { v.push(key(i)); }
        assert!(v[2].0[0] == 3);
        std::mem::forget(v);
    }
    #[kani::proof] #[kani::unwind(34)]
    fn h2_vec_cap_push4() {
        let mut v: Vec<K32> = Vec::with_capacity(8);
        for i in 0..4u8 { v.push(key(i)); }
        assert!(v[2].0[0] == 3);
        std::mem::forget(v);
    }
    #[kani::proof] #[kani::unwind(34)]
    fn h3_vec_cap_push4_search() {
        let mut v: Vec<(K32, u32)> = Vec::with_capacity(8);
        for i in 0..4u8 { v.push((key(i), i as u32)); }
        let k = key(2);
        let mut found = None;
        for (a, b) in v.iter() { if *a == k { found = Some(*b); } }
        assert!(found == Some(2));
        std::mem::forget(v);
    }
    #[kani::proof] #[kani::unwind(34)]
    fn h4_array_search() {
        let mut v: [Option<(K32, u32)>; 8] = [None; 8];
        for i in 0..4u8 { v[i as usize] = Some((key(i), i as u32)); }
        let k = key(2);
        let mut found = None;
        for e in v.iter() { if let Some((a, b)) = e { if *a == k { found = Some(*b); } } }
        assert!(found == Some(2));
    }
    #[kani::proof] #[kani::unwind(34)]
    fn h5_vec_cap_symbolic_key_search() {
        let mut v: Vec<(K32, u32)> = Vec::with_capacity(8);
        for i in 0..4u8 { v.push((key(i), i as u32)); }
        let k = K32(kani::any());
        let mut found = None;
        for (a, b) in v.iter() { if *a == k { found = Some(*b); } }
        if k == key(2) { assert!(found == Some(2)); }
        std::mem::forget(v);
    }
}
#[cfg(kani)]
mod h2 {
    use super::*;
    use kcoll::HashMap;
    #[derive(Clone)]
    pub struct Authority { pub stake: u32, pub port: u16 }
    fn mk() -> HashMap<K32, Authority> {
        let mut m = HashMap::new();
        m.insert(key(0), Authority{stake:1,port:1}); m.insert(key(1), Authority{stake:1,port:2}); m.insert(key(2), Authority{stake:1,port:3}); m.insert(key(3), Authority{stake:1,port:4});
        m
    }
    #[kani::proof] #[kani::unwind(34)]
    fn k1_insert4() { let m = mk(); assert!(m.len() == 4); std::mem::forget(m); }
    #[kani::proof] #[kani::unwind(34)]
    fn k2_insert4_get() { let m = mk(); assert!(m.get(&key(2)).map_or_else(|| 0, |x| x.stake) == 1); std::mem::forget(m); }
    #[kani::proof] #[kani::unwind(34)]
    fn k3_insert4_sum() { let m = mk(); let t: u32 = m.values().map(|x| x.stake).sum(); assert!(2 * t / 3 + 1 == 3); std::mem::forget(m); }
    #[kani::proof] #[kani::unwind(34)]
    fn k4_insert2() { let mut m = HashMap::new(); m.insert(key(0), Authority{stake:1,port:1}); m.insert(key(1), Authority{stake:1,port:2}); assert!(m.len() == 2); std::mem::forget(m); }
    #[kani::proof] #[kani::unwind(34)]
    fn k5_insert1() { let mut m = HashMap::new(); m.insert(key(0), Authority{stake:1,port:1}); assert!(m.len() == 1); std::mem::forget(m); }
}
#[cfg(kani)]
mod h3 {
    use super::*;
    /// array-backed association list
    pub struct AMap<K, V> { pub items: [Option<(K, V)>; 8], pub n: usize }
    impl<K: Eq, V> AMap<K, V> {
        pub fn new() -> Self { Self { items: Default::default(), n: 0 } }
        fn pos(&self, k: &K) -> Option<usize> { let mut i = 0; while i < self.n { if let Some((a, _)) = &self.items[i] { if a == k { return Some(i); } } i += 1; } None }
        pub fn insert(&mut self, k: K, v: V) -> Option<V> {
            match self.pos(&k) {
                Some(i) => { let old = self.items[i].take(); self.items[i] = Some((k, v)); old.map(|x| x.1) }
                None => { self.items[self.n] = Some((k, v)); self.n += 1; None }
            }
        }
        pub fn get(&self, k: &K) -> Option<&V> { match self.pos(k) { Some(i) => self.items[i].as_ref().map(|x| &x.1), None => None } }
        pub fn values(&self) -> impl Iterator<Item = &V> { self.items[..self.n].iter().filter_map(|x| x.as_ref().map(|y| &y.1)) }
    }
    #[derive(Clone)]
    pub struct Authority { pub stake: u32, pub port: u16 }
    fn mk() -> AMap<K32, Authority> {
        let mut m = AMap::new();
        m.insert(key(0), Authority{stake:1,port:1}); m.insert(key(1), Authority{stake:1,port:2}); m.insert(key(2), Authority{stake:1,port:3}); m.insert(key(3), Authority{stake:1,port:4});
        m
    }
    #[kani::proof] #[kani::unwind(34)]
    fn a2_insert4_get() { let m = mk(); assert!(m.get(&key(2)).map_or_else(|| 0, |x| x.stake) == 1); }
    #[kani::proof] #[kani::unwind(34)]
    fn a3_insert4_sum() { let m = mk(); let t: u32 = m.values().map(|x| x.stake).sum(); assert!(2 * t / 3 + 1 == 3); }
    #[kani::proof] #[kani::unwind(34)]
    fn a4_symbolic_stakes_and_key() {
        let mut m = AMap::new();
        let st: [u32; 4] = kani::any();
        for i in 0..4u8 { kani::assume(st[i as usize] < 1000); m.insert(key(i), Authority{stake: st[i as usize], port: 1}); }
        let k = K32(kani::any());
        let s = m.get(&k).map_or_else(|| 0, |x| x.stake);
        let t: u32 = m.values().map(|x| x.stake).sum();
        assert!(s <= t);
        assert!(2 * t / 3 + 1 <= t || t < 3);
    }
}

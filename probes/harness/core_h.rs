use super::*;
use crate::config::Committee;
use crypto::{Digest, PublicKey, SecretKey, Signature};
use std::future::Future;
use std::pin::Pin;
use std::task::{Context, Poll, RawWaker, RawWakerVTable, Waker};
use tokio::sync::mpsc::channel;

#[no_mangle]
pub fn __verif_choose(_n: usize) -> usize { kani::any() }

fn noop_waker() -> Waker {
    fn clone(_: *const ()) -> RawWaker { RawWaker::new(std::ptr::null(), &VT) }
    fn noop(_: *const ()) {}
    static VT: RawWakerVTable = RawWakerVTable::new(clone, noop, noop, noop);
    unsafe { Waker::from_raw(RawWaker::new(std::ptr::null(), &VT)) }
}
pub fn run_ready<F: Future>(f: F) -> F::Output {
    let mut f = std::pin::pin!(f);
    let w = noop_waker();
    let mut cx = Context::from_waker(&w);
    match f.as_mut().poll(&mut cx) {
        Poll::Ready(v) => v,
        Poll::Pending => { kani::assume(false); unreachable!() }
    }
}
fn key(i: u8) -> PublicKey { let mut k = [0u8; 4]; k[0] = i + 1; PublicKey(k) }
fn committee() -> Committee {
    use crate::config::Authority;
    let addr = |p: u16| std::net::SocketAddr::new(std::net::IpAddr::V4(std::net::Ipv4Addr::new(127, 0, 0, 1)), p);
    let mut m = kcoll::HashMap::default();
    m.items[0] = Some((key(0), Authority { stake: 1, address: addr(100) }));
    m.items[1] = Some((key(1), Authority { stake: 1, address: addr(101) }));
    m.items[2] = Some((key(2), Authority { stake: 1, address: addr(102) }));
    m.items[3] = Some((key(3), Authority { stake: 1, address: addr(103) }));
    m.n = 4;
    Committee { authorities: m, epoch: 1 }
}
struct Env {
    core: Core,
    rx_proposer: tokio::sync::mpsc::Receiver<ProposerMessage>,
    rx_commit: tokio::sync::mpsc::Receiver<Block>,
    _rx_mempool: tokio::sync::mpsc::Receiver<mempool::ConsensusMempoolMessage>,
    _tx_message: tokio::sync::mpsc::Sender<ConsensusMessage>,
    _tx_loopback: tokio::sync::mpsc::Sender<Block>,
}
fn mk_core(me: u8) -> Env {
    let committee = committee();
    let store = Store::new("x").unwrap();
    let (tx_message, rx_message) = channel(10);
    let (tx_loopback, rx_loopback) = channel(10);
    let (tx_proposer, rx_proposer) = channel(10);
    let (tx_commit, rx_commit) = channel(10);
    let (tx_mempool, rx_mempool) = channel(10);
    let name = key(me);
    let core = Core {
        name,
        committee: committee.clone(),
        signature_service: SignatureService::new(SecretKey(name.0)),
        store: store.clone(),
        leader_elector: LeaderElector::new(committee.clone()),
        mempool_driver: MempoolDriver::verif_new(store.clone(), tx_mempool),
        synchronizer: Synchronizer::verif_new(store.clone(), tx_loopback.clone()),
        rx_message,
        rx_loopback,
        tx_proposer,
        tx_commit,
        round: 1,
        last_voted_round: 0,
        last_committed_round: 0,
        high_qc: QC::genesis(),
        timer: Timer::new(1000),
        aggregator: Aggregator::new(committee),
        network: SimpleSender::new(),
    };
    Env { core, rx_proposer, rx_commit, _rx_mempool: rx_mempool, _tx_message: tx_message, _tx_loopback: tx_loopback }
}
fn any_digest() -> Digest { Digest(crypto::DBytes(kani::any())) }

#[kani::proof]
#[kani::unwind(10)]
fn make_vote_rules() {
    let mut env = mk_core(0);
    let lv: Round = kani::any();
    env.core.last_voted_round = lv;
    let qc = QC { hash: any_digest(), round: kani::any(), votes: Vec::new() };
    let has_tc: bool = kani::any();
    let tc_round: Round = kani::any();
    let hq: [Round; 3] = kani::any();
    let tc = if has_tc {
        Some(TC { round: tc_round, votes: (0..3u8).map(|i| (key(i), Signature::default(), hq[i as usize])).collect() })
    } else { None };
    let round: Round = kani::any();
    kani::assume(round < u64::MAX && qc.round < u64::MAX && tc_round < u64::MAX);
    let block = Block { qc: qc.clone(), tc, author: key(1), round, payload: Vec::new(), signature: Signature::default() };
    let v = run_ready(env.core.make_vote(&block));
    let maxhq = hq[0].max(hq[1]).max(hq[2]);
    let ok = round > lv && (qc.round + 1 == round || (has_tc && tc_round + 1 == round && qc.round >= maxhq));
    assert_eq!(v.is_some(), ok);
    if let Some(v) = v {
        assert!(v.round == round && v.author == key(0));
        assert!(env.core.last_voted_round == round);
    } else {
        assert!(env.core.last_voted_round == lv);
    }
    std::mem::forget(env);
}

#[kani::proof]
#[kani::unwind(10)]
fn mv_a() {
    let mut env = mk_core(0);
    let lv: Round = kani::any();
    env.core.last_voted_round = lv;
    let qc = QC { hash: any_digest(), round: kani::any(), votes: Vec::new() };
    let has_tc: bool = false;
    let tc_round: Round = kani::any();
    let hq: [Round; 3] = kani::any();
    let tc = if has_tc {
        Some(TC { round: tc_round, votes: (0..3u8).map(|i| (key(i), Signature::default(), hq[i as usize])).collect() })
    } else { None };
    let round: Round = kani::any();
    kani::assume(round < u64::MAX && qc.round < u64::MAX && tc_round < u64::MAX);
    let block = Block { qc: qc.clone(), tc, author: key(1), round, payload: Vec::new(), signature: Signature::default() };
    let v = run_ready(env.core.make_vote(&block));
    let maxhq = hq[0].max(hq[1]).max(hq[2]);
    let ok = round > lv && (qc.round + 1 == round || (has_tc && tc_round + 1 == round && qc.round >= maxhq));
    assert!(v.is_some() == ok);
    if let Some(v) = v {
        assert!(v.round == round && v.author == key(0));
        assert!(env.core.last_voted_round == round);
    } else {
        assert!(env.core.last_voted_round == lv);
    }
    std::mem::forget(env);
}

#[kani::proof]
#[kani::unwind(10)]
fn mv_b() {
    let mut env = mk_core(0);
    let lv: Round = kani::any();
    env.core.last_voted_round = lv;
    let qc = QC { hash: any_digest(), round: kani::any(), votes: Vec::new() };
    let has_tc: bool = kani::any();
    let tc_round: Round = kani::any();
    let hq: [Round; 3] = kani::any();
    let tc = if has_tc {
        Some(TC { round: tc_round, votes: vec![(key(0), Signature::default(), hq[0]), (key(1), Signature::default(), hq[1]), (key(2), Signature::default(), hq[2])] })
    } else { None };
    let round: Round = kani::any();
    kani::assume(round < u64::MAX && qc.round < u64::MAX && tc_round < u64::MAX);
    let block = Block { qc: qc.clone(), tc, author: key(1), round, payload: Vec::new(), signature: Signature::default() };
    let v = run_ready(env.core.make_vote(&block));
    let maxhq = hq[0].max(hq[1]).max(hq[2]);
    let ok = round > lv && (qc.round + 1 == round || (has_tc && tc_round + 1 == round && qc.round >= maxhq));
    assert!(v.is_some() == ok);
    if let Some(v) = v {
        assert!(v.round == round && v.author == key(0));
        assert!(env.core.last_voted_round == round);
    } else {
        assert!(env.core.last_voted_round == lv);
    }
    std::mem::forget(env);
}

#[kani::proof]
#[kani::unwind(10)]
fn mv_c() {
    let mut env = mk_core(0);
    let lv: Round = kani::any();
    env.core.last_voted_round = lv;
    let qc = QC { hash: any_digest(), round: kani::any(), votes: Vec::new() };
    let has_tc: bool = kani::any();
    let tc_round: Round = kani::any();
    let hq: [Round; 3] = kani::any();
    let tc = if has_tc {
        Some(TC { round: tc_round, votes: (0..3u8).map(|i| (key(i), Signature::default(), hq[i as usize])).collect() })
    } else { None };
    let round: Round = kani::any();
    kani::assume(round < u64::MAX && qc.round < u64::MAX && tc_round < u64::MAX);
    let block = Block { qc: qc.clone(), tc, author: key(1), round, payload: Vec::new(), signature: Signature::default() };
    let v = run_ready(env.core.make_vote(&block));
    let maxhq = hq[0].max(hq[1]).max(hq[2]);
    let ok = round > lv && (qc.round + 1 == round || (has_tc && tc_round + 1 == round && qc.round >= maxhq));
    assert!(v.is_some() == ok);
    if let Some(v) = v {
        assert!(v.round == round && v.author == key(0));
        assert!(env.core.last_voted_round == round);
    } else {
        assert!(env.core.last_voted_round == lv);
    }
    std::mem::forget(env);
}

#[kani::proof]
#[kani::unwind(10)]
fn p_committee() {
    let c = committee();
    assert!(c.quorum_threshold() == 3);
    assert!(c.stake(&key(2)) == 1);
    std::mem::forget(c);
}
#[kani::proof]
#[kani::unwind(10)]
fn p_mkcore() {
    let env = mk_core(0);
    assert!(env.core.round == 1);
    std::mem::forget(env);
}

#[kani::proof]
#[kani::unwind(10)]
fn mv_d() {
    let mut env = mk_core(0);
    let lv: Round = kani::any();
    env.core.last_voted_round = lv;
    let qc = QC { hash: any_digest(), round: kani::any(), votes: Vec::new() };
    let round: Round = kani::any();
    kani::assume(round < u64::MAX && qc.round < u64::MAX);
    let qcr = qc.round;
    let block = Block { qc, tc: None, author: key(1), round, payload: Vec::new(), signature: Signature::default() };
    let v = run_ready(env.core.make_vote(&block));
    let ok = round > lv && (qcr + 1 == round);
    assert!(v.is_some() == ok);
    std::mem::forget(v);
    std::mem::forget(block);
    std::mem::forget(env);
}
#[kani::proof]
#[kani::unwind(10)]
fn mv_e() {
    let qc = QC { hash: any_digest(), round: kani::any(), votes: Vec::new() };
    let block = Block { qc, tc: None, author: key(1), round: kani::any(), payload: Vec::new(), signature: Signature::default() };
    let d = block.digest();
    assert!(d == block.digest());
    std::mem::forget(block);
}
#[kani::proof]
#[kani::unwind(10)]
fn mv_f() {
    let qc = QC { hash: any_digest(), round: kani::any(), votes: Vec::new() };
    let block = Block { qc, tc: None, author: key(1), round: kani::any(), payload: Vec::new(), signature: Signature::default() };
    let v = run_ready(Vote::new(&block, key(0), SignatureService::new(SecretKey(key(0).0))));
    assert!(v.round == block.round);
    std::mem::forget(v);
    std::mem::forget(block);
}
#[kani::proof]
#[kani::unwind(10)]
fn mv_g() {
    let mut env = mk_core(0);
    let lv: Round = kani::any();
    env.core.last_voted_round = lv;
    let r: Round = kani::any();
    env.core.increase_last_voted_round(r);
    assert!(env.core.last_voted_round >= lv && env.core.last_voted_round >= r);
    std::mem::forget(env);
}
#[kani::proof]
#[kani::unwind(10)]
fn mv_h() {
    let env = mk_core(0);
    let qc = QC { hash: any_digest(), round: kani::any(), votes: Vec::new() };
    let block = Block { qc, tc: None, author: key(1), round: kani::any(), payload: Vec::new(), signature: Signature::default() };
    let v = run_ready(Vote::new(&block, env.core.name, env.core.signature_service.clone()));
    assert!(v.round == block.round);
    std::mem::forget(v);
    std::mem::forget(block);
    std::mem::forget(env);
}
#[kani::proof]
#[kani::unwind(10)]
fn mv_i() {
    let mut env = mk_core(0);
    let lv: Round = kani::any();
    env.core.last_voted_round = lv;
    let qc = QC { hash: any_digest(), round: kani::any(), votes: Vec::new() };
    let has_tc: bool = true;
    let tc_round: Round = kani::any();
    let hq: [Round; 3] = kani::any();
    let tc = if has_tc {
        Some(TC { round: tc_round, votes: vec![(key(0), Signature::default(), hq[0]), (key(1), Signature::default(), hq[1]), (key(2), Signature::default(), hq[2])] })
    } else { None };
    let round: Round = kani::any();
    kani::assume(round < u64::MAX && qc.round < u64::MAX && tc_round < u64::MAX);
    let block = Block { qc: qc.clone(), tc, author: key(1), round, payload: Vec::new(), signature: Signature::default() };
    let v = run_ready(env.core.make_vote(&block));
    let maxhq = hq[0].max(hq[1]).max(hq[2]);
    let ok = round > lv && (qc.round + 1 == round || (has_tc && tc_round + 1 == round && qc.round >= maxhq));
    assert!(v.is_some() == ok);
    if let Some(v) = v {
        assert!(v.round == round && v.author == key(0));
        assert!(env.core.last_voted_round == round);
    } else {
        assert!(env.core.last_voted_round == lv);
    }
    std::mem::forget(env);
}

#[kani::proof]
#[kani::unwind(20)]
fn bc_roundtrip() {
    let qc = QC { hash: any_digest(), round: kani::any(), votes: vec![(key(0), Signature { part1: kani::any(), part2: kani::any() }), (key(1), Signature::default())] };
    let block = Block { qc, tc: None, author: PublicKey(kani::any()), round: kani::any(), payload: vec![any_digest()], signature: Signature::default() };
    let bytes = bincode::serialize(&block).unwrap();
    let b2: Block = bincode::deserialize(&bytes).unwrap();
    assert!(b2.round == block.round);
    assert!(b2.digest() == block.digest());
    assert!(b2.qc.votes.len() == 2);
    std::mem::forget(b2);
    std::mem::forget(block);
    std::mem::forget(bytes);
}
#[kani::proof]
#[kani::unwind(20)]
fn bc_ser_only() {
    let qc = QC { hash: any_digest(), round: kani::any(), votes: vec![(key(0), Signature { part1: kani::any(), part2: kani::any() }), (key(1), Signature::default())] };
    let block = Block { qc, tc: None, author: PublicKey(kani::any()), round: kani::any(), payload: vec![any_digest()], signature: Signature::default() };
    let bytes = bincode::serialize(&block).unwrap();
    assert!(bytes.len() == 8 + 8 + 8 + 2 * (4 + 12) + 1 + 4 + 8 + 8 + 8 + 12);
    std::mem::forget(block);
    std::mem::forget(bytes);
}

#!/usr/bin/env python3
"""MIR -> SMT-LIB (bit-vectors) for Committee::quorum_threshold (C17, second engine).

Input: the `-Zunpretty=mir` dump of the crate (regenerated from /repo's current source on every run).
The function is `total = <iterator>.sum::<u32>(); <straight-line u32 arithmetic on total>; return`. Everything after the
`sum` call is translated statement by statement into 32-bit bit-vector terms over the free variable `t` (= total stake):
  X = MulWithOverflow/AddWithOverflow/SubWithOverflow(a, b)   -> value + overflow flag
  X = Mul/Add/Sub/Div/Rem/Shl/Shr/BitAnd/BitOr(a, b), Eq/Lt/..., move/copy, const N_u32, (X.0), (X.1), casts between ints
  assert(!flag / cond, ..) -> [success: bbN ..]      -> recorded as a panic condition
  goto / return
Anything else makes the translation fail (reported as inconclusive, never as a pass).
The query (negated): exists t in [1, 2^31): panic(t) or not( 3q > 2t and q <= t - f and 2q > t + f ) with f = (t-1) udiv 3,
all comparisons in 64-bit zero-extended arithmetic. unsat = property holds for every total stake below 2^31.
"""
import json
import re
import subprocess
import sys
import time

W = 32


class Untranslatable(Exception):
    pass


def find_fn(mir, crate_mod, name):
    m = re.search(r"^fn %s::<impl at [^>]*>::%s\(_1: &[\w:]*Committee\) -> u32 \{$" % (re.escape(crate_mod), name), mir, re.M)
    if not m:
        raise Untranslatable("function %s::..::%s not found in the MIR dump" % (crate_mod, name))
    end = mir.index("\n}\n", m.end())
    return mir[m.start():end]


def operand(tok, env):
    tok = tok.strip()
    m = re.match(r"^const (\d+)_(u8|u16|u32|u64|usize|i32|i64)$", tok)
    if m:
        return "(_ bv%d %d)" % (int(m.group(1)) % (1 << W), W)
    m = re.match(r"^const (true|false)$", tok)
    if m:
        return m.group(1)
    m = re.match(r"^(?:move|copy) \((_\d+)\.(\d): \w+\)$", tok)
    if m:
        v = env.get(m.group(1))
        if not isinstance(v, tuple):
            raise Untranslatable("field of non-pair " + tok)
        return v[int(m.group(2))]
    m = re.match(r"^(?:move|copy) (_\d+)$", tok)
    if m:
        if m.group(1) not in env:
            raise Untranslatable("use of untranslated local " + m.group(1))
        return env[m.group(1)]
    raise Untranslatable("operand " + tok)


def ext(x):
    return "((_ zero_extend %d) %s)" % (W, x)


def translate(fn_text):
    """returns (result term, [panic condition terms], statements translated)"""
    blocks = {}
    for m in re.finditer(r"^    (bb\d+)(?: \(cleanup\))?: \{\n(.*?)^    \}$", fn_text, re.M | re.S):
        blocks[m.group(1)] = [l.strip() for l in m.group(2).strip().split("\n") if l.strip()]
    # locate the sum call
    start, total = None, None
    for bb, lines in blocks.items():
        for l in lines:
            m = re.match(r"^(_\d+) = <.* as Iterator>::sum::<u32>\(.*\) -> \[return: (bb\d+)", l)
            if m:
                total, start = m.group(1), m.group(2)
    if not start:
        raise Untranslatable("no `.sum::<u32>()` call found: the total stake is computed differently")
    env = {total: "t"}
    panics, n, bb = [], 0, start
    seen = set()
    while True:
        if bb in seen:
            raise Untranslatable("loop in the arithmetic part")
        seen.add(bb)
        nxt = None
        for l in blocks[bb]:
            n += 1
            if l.startswith("StorageLive") or l.startswith("StorageDead") or l.startswith("nop"):
                continue
            if l == "return;":
                if "_0" not in env:
                    raise Untranslatable("return without a value")
                return env["_0"], panics, n
            m = re.match(r"^goto -> (bb\d+);$", l)
            if m:
                nxt = m.group(1)
                continue
            m = re.match(r"^assert\((!?)(.*?), \".*\) -> \[success: (bb\d+)", l)
            if m:
                c = operand(m.group(2), env)
                panics.append(c if m.group(1) == "!" else "(not %s)" % c)
                nxt = m.group(3)
                continue
            m = re.match(r"^(_\d+) = (\w+)\((.*), (.*)\);$", l)
            if m and m.group(2) in ("MulWithOverflow", "AddWithOverflow", "SubWithOverflow", "Mul", "Add", "Sub", "Div", "Rem", "Shl", "Shr",
                                    "BitAnd", "BitOr", "BitXor", "Eq", "Ne", "Lt", "Le", "Gt", "Ge"):
                dst, op, a, b = m.group(1), m.group(2), operand(m.group(3), env), operand(m.group(4), env)
                bvop = {"Mul": "bvmul", "Add": "bvadd", "Sub": "bvsub", "Div": "bvudiv", "Rem": "bvurem", "Shl": "bvshl", "Shr": "bvlshr",
                        "BitAnd": "bvand", "BitOr": "bvor", "BitXor": "bvxor"}
                if op.endswith("WithOverflow"):
                    o = bvop[op[:3]]
                    val = "(%s %s %s)" % (o, a, b)
                    wide = "(%s %s %s)" % (o, ext(a), ext(b))
                    ovf = "(not (= %s %s))" % (ext(val), wide) if op != "SubWithOverflow" else "(bvult %s %s)" % (a, b)
                    env[dst] = (val, ovf)
                elif op in bvop:
                    env[dst] = "(%s %s %s)" % (bvop[op], a, b)
                else:
                    cmp_ = {"Eq": "(= %s %s)", "Ne": "(not (= %s %s))", "Lt": "(bvult %s %s)", "Le": "(bvule %s %s)", "Gt": "(bvugt %s %s)", "Ge": "(bvuge %s %s)"}[op]
                    env[dst] = cmp_ % (a, b)
                continue
            m = re.match(r"^(_\d+) = ((?:move|copy) .*|const .*);$", l)
            if m:
                env[m.group(1)] = operand(m.group(2), env)
                continue
            raise Untranslatable("statement not understood: " + l)
        if not nxt:
            raise Untranslatable("block %s has no successor" % bb)
        bb = nxt


def query(q_term, panics, other=None):
    p = "(or false %s)" % " ".join(panics) if panics else "false"
    s = ["(set-logic QF_BV)", "(declare-const t (_ BitVec %d))" % W,
         "(define-fun q () (_ BitVec %d) %s)" % (W, q_term),
         "(define-fun T () (_ BitVec 64) %s)" % ext("t"), "(define-fun Q () (_ BitVec 64) %s)" % ext("q"),
         "(define-fun F () (_ BitVec 64) (bvudiv (bvsub T (_ bv1 64)) (_ bv3 64)))",
         "(assert (bvuge t (_ bv1 %d)))" % W, "(assert (bvult t (_ bv%d %d)))" % (1 << 31, W)]
    good = "(and (bvugt (bvmul (_ bv3 64) Q) (bvmul (_ bv2 64) T)) (bvule (bvadd Q F) T) (bvugt (bvmul (_ bv2 64) Q) (bvadd T F)))"
    if other is not None:
        good = "(and %s (= q %s))" % (good, other)
    s.append("(assert (or %s (not %s)))" % (p, good))
    s += ["(check-sat)", "(get-value (t q))"]
    return "\n".join(s) + "\n"


def solve(cmd, text, timeout=120):
    t0 = time.time()
    try:
        r = subprocess.run(cmd, input=text, stdout=subprocess.PIPE, stderr=subprocess.STDOUT, universal_newlines=True, timeout=timeout)
        out = r.stdout
    except subprocess.TimeoutExpired:
        return "timeout", "", time.time() - t0
    if "(error" in out.split("(get-value")[0] and "unsat" not in out.split("\n")[0]:
        return "error", out, time.time() - t0
    first = out.strip().split("\n")[0].strip() if out.strip() else "empty"
    return first, out, time.time() - t0


def main():
    mir_consensus, mir_mempool, outdir = sys.argv[1], sys.argv[2], sys.argv[3]
    res = {"functions": ["consensus config::Committee::quorum_threshold", "mempool config::Committee::quorum_threshold"], "queries": []}
    try:
        qc, pc, nc = translate(find_fn(open(mir_consensus).read(), "config", "quorum_threshold"))
        qm, pm, nm = translate(find_fn(open(mir_mempool).read(), "config", "quorum_threshold"))
    except Untranslatable as e:
        res["status"] = "ERROR"
        res["detail"] = "MIR translation failed: %s" % e
        print(json.dumps(res))
        return
    res["terms"] = {"consensus": qc, "mempool": qm, "panic_conditions": pc + pm, "mir_statements_translated": nc + nm}
    status = "PASS"
    for name, text in (("consensus_threshold", query(qc, pc)), ("mempool_threshold_and_equal", query(qm, pm, other=qc))):
        path = "%s/c17_%s.smt2" % (outdir, name)
        open(path, "w").write(text)
        z, zo, zt = solve(["z3", "-in"], text)
        c, co, ct = solve(["cvc5", "--lang", "smt2", "--produce-models"], text)
        q = {"query": name, "z3": z, "z3_s": round(zt, 2), "cvc5": c, "cvc5_s": round(ct, 2)}
        if "sat" == z or "sat" == c:
            q["model"] = (zo if z == "sat" else co).strip().split("\n", 1)[-1][:200]
            status = "FAIL"
        elif not (z == "unsat" and c == "unsat"):
            if status != "FAIL":
                status = "ERROR"
        res["queries"].append(q)
    res["status"] = status
    print(json.dumps(res))


if __name__ == "__main__":
    main()

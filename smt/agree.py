#!/usr/bin/env python3-vt
"""Bounded history encoding of agreement (C01) for 2-chain HotStuff as implemented in asonnino/hotstuff.

N nodes, at most F Byzantine (free variables), blocks 1..K with symbolic round / parent / TC fields (parent index < own
index = hash acyclicity), per-node logical timestamps for votes and timeouts. The network is fully adversarial by
construction (any message may reach anyone at any time or never). Honest nodes obey the node-local rules given by the
KNOBS, which are not hand-written facts but are extracted from the real code on every run (Kani cover queries over the
real make_vote / local_timeout_round / process_block / quorum_threshold, see kani/specs.py C01).

Query: two committed blocks, neither an ancestor of the other.  unsat = agreement holds for every history within the
bounds; sat = a concrete attack history (printed).

usage: agree.py '<json knobs>'   knobs: N F K rule1(strict|weak|none) consec(bool) tc_slack(int|null=unbounded)
                                        bump(bool) gap_any(bool) q(int) cert_sound(bool) dump(path|null)
"""
import json
import sys
import time

from z3 import And, Bool, BoolVal, If, Implies, Int, IntVal, Not, Or, Solver, Sum, is_true, sat, unsat


def build(kn):
    N, F, K, Q = kn["N"], kn["F"], kn["K"], kn["q"]
    R = K + 1
    s = Solver()
    byz = [Bool("byz%d" % n) for n in range(N)]
    s.add(Sum([If(b, 1, 0) for b in byz]) <= F)
    B = range(1, K + 1)
    r = {0: IntVal(0)}
    p, has_tc, tcr, mhq = {}, {}, {}, {}
    for b in B:
        r[b], p[b], has_tc[b], tcr[b], mhq[b] = Int("r%d" % b), Int("p%d" % b), Bool("htc%d" % b), Int("tcr%d" % b), Int("mhq%d" % b)
        s.add(r[b] >= 1, r[b] <= R, p[b] >= 0, p[b] < b)

    def rr(x):
        e = IntVal(0)
        for b in B:
            e = If(x == b, r[b], e)
        return e
    v = {(n, b): Bool("v%d_%d" % (n, b)) for n in range(N) for b in B}
    tv = {(n, b): Int("tv%d_%d" % (n, b)) for n in range(N) for b in B}
    to = {(n, q): Bool("to%d_%d" % (n, q)) for n in range(N) for q in range(1, R + 1)}
    tt = {(n, q): Int("tt%d_%d" % (n, q)) for n in range(N) for q in range(1, R + 1)}
    hq = {(n, q): Int("hq%d_%d" % (n, q)) for n in range(N) for q in range(1, R + 1)}
    cert = {0: BoolVal(True)}
    for b in B:
        cert[b] = (Sum([If(v[n, b], 1, 0) for n in range(N)]) >= Q) if kn["cert_sound"] else Bool("cert%d" % b)

    def certx(x):
        e = (x == 0)
        for b in B:
            e = Or(e, And(x == b, cert[b]))
        return e
    qcr = {b: rr(p[b]) for b in B}
    S = {(n, b): Bool("S%d_%d" % (n, b)) for n in range(N) for b in B}
    for b in B:
        if kn["cert_sound"]:
            s.add(Implies(has_tc[b], Sum([If(S[n, b], 1, 0) for n in range(N)]) >= Q))
        for n in range(N):
            for q in range(1, R + 1):
                s.add(Implies(And(has_tc[b], S[n, b], tcr[b] == q), And(Or(byz[n], to[n, q]), mhq[b] >= hq[n, q])))
        s.add(Implies(has_tc[b], And(tcr[b] >= 1, tcr[b] <= R)))
    for n in range(N):
        h = Not(byz[n])
        for b in B:
            if kn["tc_slack"] is None:
                hqc = BoolVal(True)
            else:
                hqc = qcr[b] + kn["tc_slack"] >= mhq[b]
            ok2 = Or(qcr[b] + 1 == r[b], And(has_tc[b], tcr[b] + 1 == r[b], hqc)) if kn["consec"] else BoolVal(True)
            s.add(Implies(And(h, v[n, b]), And(certx(p[b]), ok2, tv[n, b] >= 0)))
            for b2 in B:
                if b2 != b:
                    s.add(Implies(And(h, v[n, b], v[n, b2]), tv[n, b] != tv[n, b2]))
                    later = {"strict": r[b2] > r[b], "weak": r[b2] >= r[b], "none": BoolVal(True)}[kn["rule1"]]
                    s.add(Implies(And(h, v[n, b], v[n, b2], tv[n, b] < tv[n, b2]), later))
            for q in range(1, R + 1):
                s.add(Implies(And(h, v[n, b], to[n, q]), tv[n, b] != tt[n, q]))
                s.add(Implies(And(h, v[n, b], to[n, q], tv[n, b] < tt[n, q]), And(q >= r[b], hq[n, q] >= qcr[b])))
                s.add(Implies(And(h, v[n, b], to[n, q], tt[n, q] < tv[n, b]), (r[b] > q) if kn["bump"] else (r[b] >= q)))
        for q in range(1, R + 1):
            s.add(Implies(And(h, to[n, q]), Or(hq[n, q] == 0, *[And(cert[b], hq[n, q] == r[b]) for b in B])))
            s.add(Implies(And(h, to[n, q]), hq[n, q] < q))

    def committed(b):
        alts = [And(p[c] == b, BoolVal(True) if kn["gap_any"] else r[c] == r[b] + 1, cert[c], cert[b]) for c in B if c > b]
        return Or(*alts) if alts else BoolVal(False)  # (an empty `or` is printed as a bare symbol other solvers reject)

    def anc(a, b):
        cur = IntVal(b)
        e = BoolVal(a == b)
        for _ in range(K):
            nxt = IntVal(0)
            for x in B:
                nxt = If(cur == x, p[x], nxt)
            cur = nxt
            e = Or(e, cur == a)
        return e
    s.add(Or(*[And(committed(a), committed(b), Not(anc(a, b)), Not(anc(b, a))) for a in B for b in B if a < b]))
    return s, dict(byz=byz, r=r, p=p, has_tc=has_tc, tcr=tcr, mhq=mhq, v=v, cert=cert, B=B, N=N)


def main():
    kn = json.loads(sys.argv[1])
    s, V = build(kn)
    if kn.get("dump"):
        open(kn["dump"], "w").write("(set-logic ALL)\n" + s.to_smt2())
    s.set("timeout", int(kn.get("timeout_s", 600)) * 1000)
    t0 = time.time()
    res = s.check()
    out = {"result": str(res), "solver_s": round(time.time() - t0, 2), "knobs": kn, "assertions": len(s.assertions())}
    if res == sat:
        m = s.model()
        out["history"] = {
            "byzantine": [n for n in range(V["N"]) if is_true(m.eval(V["byz"][n]))],
            "blocks": [{"block": b, "round": m.eval(V["r"][b]).as_long(), "parent": m.eval(V["p"][b]).as_long(),
                        "tc": is_true(m.eval(V["has_tc"][b])), "tc_round": str(m.eval(V["tcr"][b])), "tc_max_high_qc": str(m.eval(V["mhq"][b])),
                        "voters": [n for n in range(V["N"]) if is_true(m.eval(V["v"][n, b]))],
                        "certified": is_true(m.eval(V["cert"][b]))} for b in V["B"]],
        }
    print(json.dumps(out))


if __name__ == "__main__":
    main()
